"""Seeded-change corpus for sa.selftest: textual single-site edits of /repo/src (each still compiles).

MUTANTS: {"id", "prop", "rule" (optional rule-id prefix expected), "edits": [(relpath, old, new)]}
BENIGN:  {"id", "props": [...], "edits": [...]}  behaviour-preserving; the listed checks must stay silent.
"""

M = "src/elexmodel/models/"
H = "src/elexmodel/handlers/"
D = "src/elexmodel/handlers/data/"
CL = "src/elexmodel/client.py"

MUTANTS = []
BENIGN = []


def mut(id_, prop, edits, rule=None):
    MUTANTS.append({"id": id_, "prop": prop, "rule": rule, "edits": edits})


def ben(id_, props, edits):
    BENIGN.append({"id": id_, "props": props, "edits": edits})


# ------------------------------------------------------------------------------------------- C20
CF = M + "ConformalElectionModel.py"
mut("c20-retry-bad-kw", "C20", [(CF, "                taus=tau,\n                weights=weights,\n                lambda_=self.lambda_,\n                fit_intercept=self.add_intercept,\n                normalize_weights=False,",
                                  "                tau_value=tau,\n                weights=weights,\n                lambda_=self.lambda_,\n                fit_intercept=self.add_intercept,\n                normalize_weights=False,")], "C20.R2")
mut("c20-retry-drops-lambda", "C20", [(CF, "                lambda_=self.lambda_,\n                fit_intercept=self.add_intercept,\n                normalize_weights=False,",
                                        "                fit_intercept=self.add_intercept,\n                normalize_weights=False,")], "C20.R3")
mut("c20-retry-still-normalizes", "C20", [(CF, "                normalize_weights=False,\n", "                normalize_weights=True,\n")], "C20.R3")
mut("c20-retry-const-tau", "C20", [(CF, "                taus=tau,\n                weights=weights,\n                lambda_=self.lambda_,\n                fit_intercept=self.add_intercept,\n                normalize_weights=False,",
                                     "                taus=0.5,\n                weights=weights,\n                lambda_=self.lambda_,\n                fit_intercept=self.add_intercept,\n                normalize_weights=False,")], "C20.R3")
mut("c20-retry-unweighted", "C20", [(CF, "                taus=tau,\n                weights=weights,\n                lambda_=self.lambda_,\n                fit_intercept=self.add_intercept,\n                normalize_weights=False,",
                                      "                taus=tau,\n                lambda_=self.lambda_,\n                fit_intercept=self.add_intercept,\n                normalize_weights=False,")], "C20.R3")
mut("c20-except-narrowed", "C20", [(CF, "except (UserWarning, cvxpy.error.SolverError):", "except cvxpy.error.SolverError:")], "C20.R1")
mut("c20-except-narrowed-2", "C20", [(CF, "except (UserWarning, cvxpy.error.SolverError):", "except UserWarning:")], "C20.R1")
mut("c20-filter-removed", "C20", [(CF, 'warnings.filterwarnings("error", category=UserWarning, module="cvxpy")', 'warnings.filterwarnings("default", category=UserWarning, module="cvxpy")')], "C20.R4")
mut("c20-filter-other-module", "C20", [(CF, 'category=UserWarning, module="cvxpy")', 'category=UserWarning, module="scipy")')], "C20.R4")
mut("c20-handler-reraises", "C20", [(CF, '            LOG.warning("Warning: solution was inaccurate or solver broke. Re-running with normalize_weights=False.")\n',
                                      '            LOG.warning("Warning: solution was inaccurate or solver broke. Re-running with normalize_weights=False.")\n            if tau != 0.5:\n                raise\n')], "C20.R1")
mut("c20-direct-fit-bypass", "C20", [(CF, "        self.fit_model(upper_qr, train_data_features, train_data_residuals, upper_bound, train_data_weights, True)",
                                       "        upper_qr.fit(\n            train_data_features.values,\n            train_data_residuals.values,\n            taus=upper_bound,\n            weights=train_data_weights.values,\n            lambda_=self.lambda_,\n            fit_intercept=self.add_intercept,\n        )")], "C20.R5")
mut("c20-relax-filter-elsewhere", "C20", [(M + "NonparametricElectionModel.py", "import math\n", "import math\nimport warnings\n\nwarnings.simplefilter(\"ignore\")\n")], "C20.R4")
ben("c20-rename-locals", ["C20"], [(CF, "        X = df_X.values\n        y = df_y.values\n        weights = weights.values\n", "        X = df_X.values\n        y = df_y.values\n        w_arr = weights.values\n        weights = w_arr\n")])
ben("c20-first-passes-flag", ["C20"], [(CF, "                fit_intercept=self.add_intercept,\n            )\n        except", "                fit_intercept=self.add_intercept,\n                normalize_weights=normalize_weights,\n            )\n        except")])
ben("c20-except-exception", ["C20"], [(CF, "except (UserWarning, cvxpy.error.SolverError):", "except (Warning, cvxpy.error.SolverError) as e:  # noqa")])
ben("c20-retry-literal-intercept", ["C20"], [(CF, "                fit_intercept=self.add_intercept,\n                normalize_weights=False,", "                fit_intercept=True,\n                normalize_weights=False,")])

# ------------------------------------------------------------------------------------------- C18
mut("c18-drop-env-guard-live", "C18", [(CL, '        if APP_ENV != "local" and self.save_results:\n            data.write_data(self.election_id, self.office)',
                                         '        if self.save_results:\n            data.write_data(self.election_id, self.office)')], "C18.R1")
mut("c18-drop-flag-guard-pred", "C18", [(CL, '        if APP_ENV != "local" and self.save_results:\n            self.results_handler.write_data(self.election_id, self.office, self.geographic_unit_type)',
                                          '        if APP_ENV != "local":\n            self.results_handler.write_data(self.election_id, self.office, self.geographic_unit_type)')], "C18.R1")
mut("c18-write-after-gate", "C18", [(CL, '        if APP_ENV != "local" and self.save_results:\n            data.write_data(self.election_id, self.office)\n\n', ''),
                                     (CL, '        units_by_count = reporting_units["geographic_unit_fips"].value_counts()',
                                      '        if APP_ENV != "local" and self.save_results:\n            data.write_data(self.election_id, self.office)\n\n        units_by_count = reporting_units["geographic_unit_fips"].value_counts()')], "C18.R2")
mut("c18-flag-mixup", "C18", [(CL, 'save_data = "data" in save_output', 'save_data = "results" in save_output')], "C18.R1")
mut("c18-results-flag-wrong", "C18", [(CL, 'self.save_results = "results" in save_output', 'self.save_results = len(save_output) > 0')], "C18.R1")
mut("c18-conformalization-always", "C18", [("src/elexmodel/distributions/GaussianModel.py", "if top_level and aggregate and self.save_conformalization:", "if top_level and aggregate:")], "C18.R1")
mut("c18-conformalization-flag-lost", "C18", [(CL, '"save_conformalization": save_conformalization,', '"save_conformalization": True,')], "C18.R1")
mut("c18-config-saved-always", "C18", [(H + "config.py", "        if save:\n            self.save()", "        self.save()")], "C18.R1")
mut("c18-new-debug-dump", "C18", [(D + "ModelResults.py", "    def process_final_results(self):\n        \"\"\"\n        Create final data frames of results\n        \"\"\"\n",
                                    "    def process_final_results(self):\n        \"\"\"\n        Create final data frames of results\n        \"\"\"\n        pd.DataFrame(self.unit_data).to_csv(\"unit_debug.csv\")\n")], "C18.R1")
mut("c18-key-space", "C18", [(D + "CombinedData.py", 'path = f"{S3_FILE_PATH}/{election_id}/results/{office}/{self.geographic_unit_type}/current.csv"', 'path = f"{S3_FILE_PATH}/{election_id}/results/{office}/ {self.geographic_unit_type}/current.csv"')], "C18.R3")
mut("c18-key-no-election", "C18", [(D + "ModelResults.py", 'path = f"{S3_FILE_PATH}/{election_id}/predictions/{office}/{geographic_unit_type}/{key}/current.csv"', 'path = f"{S3_FILE_PATH}/predictions/{election_id}/{office}/{geographic_unit_type}/{key}/current.csv"')], "C18.R3")
mut("c18-one-table-only", "C18", [(D + "ModelResults.py", "            if keys is not None and key not in keys:\n                continue", "            if keys is not None and key not in keys:\n                continue\n            if key == \"unit_data\" and not self.include_unit_data:\n                continue\n            if value.empty:\n                continue")], "C18.R4")
mut("c18-same-key-all-tables", "C18", [(D + "ModelResults.py", "{geographic_unit_type}/{key}/current.csv", "{geographic_unit_type}/current.csv")], "C18.R4")
ben("c18-guard-split", ["C18"], [(CL, '        if APP_ENV != "local" and self.save_results:\n            data.write_data(self.election_id, self.office)',
                                   '        if APP_ENV != "local":\n            if self.save_results:\n                data.write_data(self.election_id, self.office)')])
ben("c18-guard-early-flag-var", ["C18"], [(CL, '        if APP_ENV != "local" and self.save_results:\n            self.results_handler.write_data(self.election_id, self.office, self.geographic_unit_type)',
                                            '        write_predictions = self.save_results\n        if write_predictions and not APP_ENV == "local":\n            self.results_handler.write_data(self.election_id, self.office, self.geographic_unit_type)')])
ben("c18-key-via-local", ["C18"], [(D + "CombinedData.py", 'path = f"{S3_FILE_PATH}/{election_id}/results/{office}/{self.geographic_unit_type}/current.csv"\n        s3_client.put(path, csv_data)',
                                     'base = f"{S3_FILE_PATH}/{election_id}/results/{office}/{self.geographic_unit_type}"\n        s3_client.put(f"{base}/current.csv", csv_data)')])

# ------------------------------------------------------------------------------------------- C12
mut("c12-sample-unseeded", "C12", [(CF, "reporting_units.sample(frac=1, random_state=self.seed)", "reporting_units.sample(frac=1)")], "C12.R1")
mut("c12-sample-literal-none", "C12", [(CF, "reporting_units.sample(frac=1, random_state=self.seed)", "reporting_units.sample(frac=1, random_state=None)")], "C12.R1")
mut("c12-boot-unseeded", "C12", [("src/elexmodel/utils/math_utils.py", "        random_state=np.random.default_rng(seed),\n", "")], "C12.R1")
mut("c12-boot-caller-drops-seed", "C12", [("src/elexmodel/distributions/GaussianModel.py", "x.lower_bounds.values, conf=(3 + alpha) / 4, winsorize=self.winsorize, seed=self.seed", "x.lower_bounds.values, conf=(3 + alpha) / 4, winsorize=self.winsorize")], "C12.R1")
mut("c12-rng-unseeded", "C12", [(M + "BootstrapElectionModel.py", "self.rng = np.random.default_rng(seed=self.seed)", "self.rng = np.random.default_rng()")], "C12.R1")
mut("c12-global-numpy-random", "C12", [(M + "BootstrapElectionModel.py", "test_unifs = self.rng.uniform(low=0, high=1, size=(n_test, self.B, 2))", "test_unifs = np.random.uniform(low=0, high=1, size=(n_test, self.B, 2))")], "C12.R1")
mut("c12-new-local-rng", "C12", [(M + "BootstrapElectionModel.py", "        self.rng.shuffle(x_y_w)", "        np.random.default_rng().shuffle(x_y_w)")], "C12.R1")
mut("c12-seed-from-clock", "C12", [(M + "BaseElectionModel.py", 'self.seed = model_settings.get("seed", 4191)', 'self.seed = model_settings.get("seed", None) or int(__import__("time").time())')], "C12.R1")
mut("c12-model-reused", "C12", [(CL, '        if pi_method == "nonparametric":\n            self.model = NonparametricElectionModel(model_settings=model_settings)',
                                  '        if pi_method == "nonparametric":\n            if not isinstance(self.model, NonparametricElectionModel):\n                self.model = NonparametricElectionModel(model_settings=model_settings)')], "C12.R2")
mut("c12-handler-reused", "C12", [(CL, "        self.results_handler = ModelResultsHandler(\n            aggregates, prediction_intervals, reporting_units, nonreporting_units, unexpected_units\n        )",
                                    "        if self.results_handler is None:\n            self.results_handler = ModelResultsHandler(\n                aggregates, prediction_intervals, reporting_units, nonreporting_units, unexpected_units\n            )")], "C12.R2")
mut("c12-set-order-aggregates", "C12", [(CL, "        return sorted(list(set(raw_aggregate_list)), key=lambda x: AGGREGATE_ORDER.index(x))", "        return list(set(raw_aggregate_list))")], "C12.R3")
mut("c12-mutates-current-data", "C12", [(D + "CombinedData.py", "estimandizer.add_estimand_results(current_data.copy(), self.estimands, False)", "estimandizer.add_estimand_results(current_data, self.estimands, False)")], "C12.R4")
mut("c12-mutates-preprocessed", "C12", [(CL, "            preprocessed_data = preprocessed_data.copy()\n", "            preprocessed_data = preprocessed_data\n")], "C12.R4")
mut("c12-mutates-model-parameters", "C12", [(CL, "        model_settings.update(model_parameters)", "        model_parameters.update(model_settings)\n        model_settings = model_parameters")], "C12.R4")
ben("c12-seed-via-local", ["C12"], [(CF, "reporting_units.sample(frac=1, random_state=self.seed)", "reporting_units.sample(frac=1, random_state=(self.seed))")])
ben("c12-sorted-set", ["C12"], [(CL, "sorted(list(set(raw_aggregate_list)), key=lambda x: AGGREGATE_ORDER.index(x))", "sorted(set(raw_aggregate_list), key=lambda x: AGGREGATE_ORDER.index(x))")])
ben("c12-copy-deep", ["C12"], [(CL, "            preprocessed_data = preprocessed_data.copy()\n", "            preprocessed_data = preprocessed_data.copy(deep=True)\n")])

# ------------------------------------------------------------------------------------------- C14
mut("c14-gate-le", "C14", [(CL, "if n_reporting_expected_units < minimum_reporting_units_max:", "if n_reporting_expected_units <= minimum_reporting_units_max:")], "C14.R1")
mut("c14-gate-counts-unexpected", "C14", [(CL, "n_reporting_expected_units = reporting_units.shape[0]", "n_reporting_expected_units = reporting_units.shape[0] + len(unexpected_units)")], "C14.R1")
mut("c14-gate-counts-all", "C14", [(CL, "n_reporting_expected_units = reporting_units.shape[0]", "n_reporting_expected_units = data.data.shape[0]")], "C14.R1")
mut("c14-min-not-max", "C14", [(CL, "            if minimum_reporting_units > minimum_reporting_units_max:\n                minimum_reporting_units_max = minimum_reporting_units",
                                 "            minimum_reporting_units_max = minimum_reporting_units")], "C14.R2")
mut("c14-min-first-alpha-only", "C14", [(CL, "        for alpha in prediction_intervals:\n            minimum_reporting_units = self.model.get_minimum_reporting_units(alpha)",
                                          "        for alpha in prediction_intervals[:1]:\n            minimum_reporting_units = self.model.get_minimum_reporting_units(alpha)")], "C14.R2")
mut("c14-gate-after-model", "C14", [(CL, "        if n_reporting_expected_units < minimum_reporting_units_max:\n            raise ModelNotEnoughSubunitsException(\n                f\"Currently {n_reporting_expected_units} reporting, need at least {minimum_reporting_units_max}\"\n            )\n\n", ""),
                                     (CL, "        self.results_handler.process_final_results()\n", "        if n_reporting_expected_units < minimum_reporting_units_max:\n            raise ModelNotEnoughSubunitsException(\n                f\"Currently {n_reporting_expected_units} reporting, need at least {minimum_reporting_units_max}\"\n            )\n        self.results_handler.process_final_results()\n")], "C14.R3")
mut("c14-gate-only-nonlocal", "C14", [(CL, "        if n_reporting_expected_units < minimum_reporting_units_max:\n            raise ModelNotEnoughSubunitsException(",
                                        "        if n_reporting_expected_units < minimum_reporting_units_max and n_nonreporting_units > 0:\n            raise ModelNotEnoughSubunitsException(")], "C14.R1")
mut("c14-nonparam-min-floor", "C14", [(M + "NonparametricElectionModel.py", "return math.ceil(-1 * (alpha + 1) / (alpha - 1))", "return math.floor(-1 * (alpha + 1) / (alpha - 1))")], "C14.R4")
mut("c14-gaussian-min", "C14", [(M + "GaussianElectionModel.py", "return 10 * self._compute_conf_frac()", "return 5 * self._compute_conf_frac()")], "C14.R4")
mut("c14-conf-frac-cap", "C14", [(M + "NonparametricElectionModel.py", "(n_reporting_units * (alpha - 1)), 0.9), 2)", "(n_reporting_units * (alpha - 1)), 0.95), 2)")], "C14.R4")
mut("c14-dup-wrong-exception", "C14", [(CL, 'raise ModelClientException(f"At least one unit appears twice: {duplicate_units}")', 'raise ModelNotEnoughSubunitsException(f"At least one unit appears twice: {duplicate_units}")')], "C14.R5")
mut("c14-dup-threshold", "C14", [(CL, "duplicate_units = units_by_count[units_by_count > 1].to_dict()", "duplicate_units = units_by_count[units_by_count > 2].to_dict()")], "C14.R5")
ben("c14-max-builtin", ["C14"], [(CL, "            if minimum_reporting_units > minimum_reporting_units_max:\n                minimum_reporting_units_max = minimum_reporting_units",
                                   "            minimum_reporting_units_max = max(minimum_reporting_units_max, minimum_reporting_units)")])
ben("c14-len-instead-of-shape", ["C14"], [(CL, "n_reporting_expected_units = reporting_units.shape[0]", "n_reporting_expected_units = len(reporting_units)")])
ben("c14-gate-flipped", ["C14"], [(CL, "if n_reporting_expected_units < minimum_reporting_units_max:", "if minimum_reporting_units_max > n_reporting_expected_units:")])
ben("c14-min-formula-rewritten", ["C14"], [(M + "NonparametricElectionModel.py", "return math.ceil(-1 * (alpha + 1) / (alpha - 1))", "return math.ceil((1 + alpha) / (1 - alpha))")])

# ------------------------------------------------------------------------------------------- C19
S3 = H + "s3.py"
VD = D + "VersionedData.py"
mut("c19-drop-page", "C19", [(S3, "            versions += self.list_versions(", "            versions = self.list_versions(")], "C19.R1")
mut("c19-stop-gt", "C19", [(S3, 'versions[-1]["LastModified"] >= self.start_date)', 'versions[-1]["LastModified"] > self.start_date)')], "C19.R2")
mut("c19-first-not-last", "C19", [(S3, 'versions[-1]["LastModified"] >= self.start_date)', 'versions[0]["LastModified"] >= self.start_date)')], "C19.R2")
mut("c19-ignore-truncated", "C19", [(S3, '            response["IsTruncated"]\n            and len(versions) > 0', '            len(versions) > 0')], "C19.R2")
mut("c19-one-marker", "C19", [(S3, 'VersionIdMarker=response["NextVersionIdMarker"],', 'VersionIdMarker=response["NextKeyMarker"],')], "C19.R3")
mut("c19-marker-dropped", "C19", [(S3, '                VersionIdMarker=response["NextVersionIdMarker"],\n', '')], "C19.R3")
mut("c19-no-forward", "C19", [(S3, "Prefix=path, **kwargs)", "Prefix=path)")], "C19.R3")
mut("c19-end-exclusive", "C19", [(S3, 'v["LastModified"] <= self.end_date', 'v["LastModified"] < self.end_date')], "C19.R4")
mut("c19-start-exclusive", "C19", [(S3, 'lambda v: v["LastModified"] >= self.start_date', 'lambda v: v["LastModified"] > self.start_date')], "C19.R4")
mut("c19-end-filter-only-page", "C19", [(S3, "        if self.end_date is not None:\n            versions = list(filter(lambda v: v[\"LastModified\"] <= self.end_date, versions))\n        return versions",
                                          "        return versions"),
                                         (S3, "        versions = []\n        if \"Versions\" in response:\n            versions = response[\"Versions\"]\n",
                                          "        versions = []\n        if \"Versions\" in response:\n            versions = response[\"Versions\"]\n        if self.end_date is not None:\n            versions = list(filter(lambda v: v[\"LastModified\"] <= self.end_date, versions))\n")], "C19")
mut("c19-empty-no-none", "C19", [(S3, "        if len(versions) == 0:\n            LOG.info(f\"No versions found for {path}\")\n            return None", "        if versions is None:\n            LOG.info(f\"No versions found for {path}\")\n            return None")], "C19.R5")
mut("c19-sample-offset", "C19", [(S3, "for version in versions[::sample]:", "for version in versions[1::sample]:")], "C19.R6")
mut("c19-sample-prefix", "C19", [(S3, "for version in versions[::sample]:", "for version in versions[:sample]:")], "C19.R6")
mut("c19-stamp-first-version", "C19", [(S3, 'pd.to_datetime(version["LastModified"])', 'pd.to_datetime(versions[0]["LastModified"])')], "C19.R6")
mut("c19-no-tz", "C19", [(S3, 'pd.to_datetime(version["LastModified"]).astimezone(tz=tz.gettz(self.tz))', 'pd.to_datetime(version["LastModified"])')], "C19.R6")
mut("c19-tz-utc", "C19", [(S3, 'astimezone(tz=tz.gettz(self.tz))', 'astimezone(tz=tz.gettz("UTC"))')], "C19.R6")
mut("c19-narrow-except", "C19", [(S3, "            except Exception as e:\n                LOG.error", "            except TimeoutError as e:\n                LOG.error")], "C19.R7")
mut("c19-reraise", "C19", [(S3, '                LOG.error(f"Error downloading {version[\'VersionId\']}: {e}")\n', '                LOG.error(f"Error downloading {version[\'VersionId\']}: {e}")\n                raise\n')], "C19.R7")
mut("c19-yield-outside-try", "C19", [(S3, "                future.result()\n                yield version, data\n            except Exception as e:\n                LOG.error(f\"Error downloading {version['VersionId']}: {e}\")\n",
                                       "                future.result()\n            except Exception as e:\n                LOG.error(f\"Error downloading {version['VersionId']}: {e}\")\n            yield version, data\n")], "C19.R7")
mut("c19-propagate-none-lost", "C19", [(VD, "        if data is None:\n            self.data = data\n            return data\n", "")], "C19.R5")
mut("c19-client-keeps-handler", "C19", [(CL, "            if versioned_results is None:\n                versioned_data_handler = None\n", "            if versioned_results is None:\n                LOG.info(\"no versioned results\")\n")], "C19.R5")
mut("c19-sample-not-forwarded", "C19", [(VD, "data = self.s3_client.get(path, self.sample)", "data = self.s3_client.get(path)")], "C19.R6")
mut("c19-wrong-buffer", "C19", [(S3, "        future = self.manager.download(self.bucket_name, path, data, extra_args=kwargs, subscribers=subscribers)", "        future = self.manager.download(self.bucket_name, path, io.BytesIO(), extra_args=kwargs, subscribers=subscribers)")], "C19.R6")
ben("c19-nonempty-truthy", ["C19"], [(S3, "            and len(versions) > 0\n", "            and versions\n")])
ben("c19-get-default", ["C19"], [(S3, '        versions = []\n        if "Versions" in response:\n            versions = response["Versions"]\n', '        versions = response.get("Versions", [])\n')])
ben("c19-listcomp-filter", ["C19"], [(S3, 'versions = list(filter(lambda v: v["LastModified"] <= self.end_date, versions))', 'versions = [v for v in versions if v["LastModified"] <= self.end_date]')])
ben("c19-not-versions", ["C19"], [(S3, "        if len(versions) == 0:\n            LOG.info(f\"No versions found", "        if not versions:\n            LOG.info(f\"No versions found")])

# ------------------------------------------------------------------------------------------- C08
BS = M + "BootstrapElectionModel.py"
mut("c08-errors-stored-always", "C08", [(BS, "        if self._is_top_level_aggregate(aggregate):\n            self.divided_error_B_1 = divided_error_B_1\n            self.divided_error_B_2 = divided_error_B_2\n",
                                          "        self.divided_error_B_1 = divided_error_B_1\n        self.divided_error_B_2 = divided_error_B_2\n")], "C08.R1")
mut("c08-pred-margin-stored-always", "C08", [(BS, "        if self._is_top_level_aggregate(aggregate):\n            lhs_called_contests = kwargs.get(\"lhs_called_contests\", [])\n            rhs_called_contests = kwargs.get(\"rhs_called_contests\", [])\n            called_contests = self._format_called_contests(lhs_called_contests, rhs_called_contests, contests, 1, 0, -1)\n\n            self.aggregate_pred_margin",
                                               "        self.aggregate_pred_margin = raw_margin_df.pred_margin.values.reshape(-1, 1)\n        if self._is_top_level_aggregate(aggregate):\n            lhs_called_contests = kwargs.get(\"lhs_called_contests\", [])\n            rhs_called_contests = kwargs.get(\"rhs_called_contests\", [])\n            called_contests = self._format_called_contests(lhs_called_contests, rhs_called_contests, contests, 1, 0, -1)\n\n            self.aggregate_pred_margin")], "C08.R1")
mut("c08-guard-weakened", "C08", [(BS, "        if self._is_top_level_aggregate(aggregate):\n            self.divided_error_B_1 = divided_error_B_1", "        if self._is_top_level_aggregate(aggregate) or not hasattr(self, \"divided_error_B_1\") or True:\n            self.divided_error_B_1 = divided_error_B_1")], "C08.R1")
mut("c08-losses-unclipped", "C08", [(BS, "potential_losses = ((pred_states - (~lower_states).astype(int)) > 0).astype(int)", "potential_losses = pred_states - (~lower_states).astype(int)")], "C08.R2")
mut("c08-gains-unclipped", "C08", [(BS, "potential_gains = ((upper_states.astype(int) - pred_states) > 0).astype(int)", "potential_gains = upper_states.astype(int) - pred_states")], "C08.R2")
mut("c08-losses-all-lower", "C08", [(BS, "        potential_losses = ((pred_states - lower_states) > 0).astype(int)", "        potential_losses = (1 - lower_states).astype(int)")], "C08.R2")
mut("c08-called-not-zeroed-gains", "C08", [(BS, "            potential_gains[~np.isclose(self.called_contests.flatten(), -1)] = 0\n", "")], "C08.R2")
mut("c08-called-mask-wrong", "C08", [(BS, "            potential_losses[~np.isclose(self.called_contests.flatten(), -1)] = 0", "            potential_losses[np.isclose(self.called_contests.flatten(), 1)] = 0")], "C08.R2")
mut("c08-stop-forces-all", "C08", [(BS, "            potential_losses[pred_states.astype(bool) & self.stop_model_call.flatten()] = 1", "            potential_losses[self.stop_model_call.flatten()] = 1")], "C08.R2")
mut("c08-upper-minus", "C08", [(BS, "interval_upper = aggregate_dem_vals_pred + np.sum(", "interval_upper = aggregate_dem_vals_pred - np.sum(")], "C08.R3")
mut("c08-base-not-added-lower", "C08", [(BS, "agg_lower = round(interval_lower + base_to_add, 2)", "agg_lower = round(interval_lower, 2)")], "C08.R3")
mut("c08-weights-unsorted", "C08", [(BS, "nat_sum_data_dict_sorted = sorted(nat_sum_data_dict.items())", "nat_sum_data_dict_sorted = list(nat_sum_data_dict.items())")], "C08.R5")
mut("c08-pred-ge-zero", "C08", [(BS, "            aggregate_dem_probs_total = self.aggregate_pred_margin > 0", "            aggregate_dem_probs_total = self.aggregate_pred_margin >= 0")], "C08.R5")
mut("c08-length-check-gone", "C08", [(BS, "        if len(nat_sum_data_dict) != self.divided_error_B_1.shape[0]:\n            raise BootstrapElectionModelException(", "        if len(nat_sum_data_dict) > 10**6:\n            raise BootstrapElectionModelException(")], "C08.R4")
mut("c08-client-first-alpha", "C08", [(CL, "        for alpha in alphas:\n            nat_sum_estimates = self.model.get_national_summary_estimates(nat_sum_data_dict, base_to_add, alpha)", "        for alpha in alphas[:1]:\n            nat_sum_estimates = self.model.get_national_summary_estimates(nat_sum_data_dict, base_to_add, alpha)")], "C08.R6")
mut("c08-client-base-dropped", "C08", [(CL, "self.model.get_national_summary_estimates(nat_sum_data_dict, base_to_add, alpha)", "self.model.get_national_summary_estimates(nat_sum_data_dict, 0, alpha)")], "C08.R6")
mut("c08-columns-swapped", "C08", [(D + "ModelResults.py", '            df[f"lower_{alpha}"] = [data["margin"][1]]\n            df[f"upper_{alpha}"] = [data["margin"][2]]', '            df[f"lower_{alpha}"] = [data["margin"][2]]\n            df[f"upper_{alpha}"] = [data["margin"][1]]')], "C08.R6")
ben("c08-clip-instead", ["C08"], [(BS, "potential_losses = ((pred_states - (~lower_states).astype(int)) > 0).astype(int)", "potential_losses = (pred_states.astype(bool) & lower_states).astype(int)")])
ben("c08-local-rename", ["C08"], [(BS, "        nat_sum_data_dict_sorted = sorted(nat_sum_data_dict.items())\n        nat_sum_data_dict_sorted_vals = np.asarray([x[1] for x in nat_sum_data_dict_sorted]).reshape(-1, 1)",
                                    "        weights_by_contest = sorted(nat_sum_data_dict.items())\n        nat_sum_data_dict_sorted_vals = np.asarray([x[1] for x in weights_by_contest]).reshape(-1, 1)")])

# ------------------------------------------------------------------------------------------- C07
mut("c07-no-intersection-check", "C07", [(BS, "        if len(lhs_rhs_intersection) > 0:\n            raise BootstrapElectionModelException(\n                f\"You can only call a contest for one party", "        if len(lhs_rhs_intersection) > 1:\n            raise BootstrapElectionModelException(\n                f\"You can only call a contest for one party")], "C07.R1")
mut("c07-rhs-unknown-not-rejected", "C07", [(BS, "        rhs_difference_with_contests = set(rhs_called_contests) - set(contests)", "        rhs_difference_with_contests = set(rhs_called_contests) - set(rhs_called_contests)")], "C07.R1")
mut("c07-lhs-checked-against-rhs", "C07", [(BS, "        lhs_difference_with_contests = set(lhs_called_contests) - set(contests)", "        lhs_difference_with_contests = set(lhs_called_contests) - set(rhs_called_contests)")], "C07.R1")
mut("c07-vector-elif-swapped-value", "C07", [(BS, "            elif contest in rhs_called_contests:\n                called_contests[i] = rhs_value", "            elif contest in rhs_called_contests:\n                called_contests[i] = lhs_value")], "C07.R1")
mut("c07-pred-max-zero", "C07", [(BS, "        to_call_mod[np.isclose(called_contests, 1)] = np.maximum(\n            self.lhs_called_threshold, to_call[np.isclose(called_contests, 1)]\n        )",
                                   "        to_call_mod[np.isclose(called_contests, 1)] = np.maximum(\n            0, to_call[np.isclose(called_contests, 1)]\n        )")], "C07.R2")
mut("c07-pred-rhs-uses-max", "C07", [(BS, "        to_call_mod[np.isclose(called_contests, 0)] = np.minimum(", "        to_call_mod[np.isclose(called_contests, 0)] = np.maximum(")], "C07.R2")
mut("c07-pred-rhs-mask-fill", "C07", [(BS, "        to_call_mod[np.isclose(called_contests, 0)] = np.minimum(\n            self.rhs_called_threshold, to_call[np.isclose(called_contests, 0)]", "        to_call_mod[np.isclose(called_contests, -1)] = np.minimum(\n            self.rhs_called_threshold, to_call[np.isclose(called_contests, -1)]")], "C07.R2")
mut("c07-threshold-changed", "C07", [(BS, "        self.lhs_called_threshold = 0.005", "        self.lhs_called_threshold = 0.0005")], "C07")
mut("c07-lower-le", "C07", [(BS, "                (interval_lower < 0)\n                & np.isclose(self.called_contests, 1),", "                (interval_lower < -0.005)\n                & np.isclose(self.called_contests, 1),")], "C07.R3")
mut("c07-upper-wrong-code", "C07", [(BS, "                & np.isclose(self.called_contests, 0),  # current bound is higher than 0 but called for gop", "                & np.isclose(self.called_contests, -1),  # current bound is higher than 0 but called for gop")], "C07.R3")
mut("c07-stop-only-lower", "C07", [(BS, "            interval_upper = np.where((interval_upper < 0) & stop_model_call, self.lhs_called_threshold, interval_upper)\n", "")], "C07.R3")
mut("c07-stop-before-call", "C07", [(BS, "            interval_lower = np.where((interval_lower > 0) & stop_model_call, self.rhs_called_threshold, interval_lower)", "            interval_lower = np.where((interval_lower > 0.005) & stop_model_call, self.rhs_called_threshold, interval_lower)")], "C07.R3")
mut("c07-stop-replaces-with-positive", "C07", [(BS, "np.where((interval_lower > 0) & stop_model_call, self.rhs_called_threshold, interval_lower)", "np.where((interval_lower > 0) & stop_model_call, self.lhs_called_threshold, interval_lower)")], "C07.R3")
mut("c07-pred-not-reported", "C07", [(BS, "            raw_margin_df[\"pred_margin\"] = self.aggregate_pred_margin\n", "")], "C07")
mut("c07-client-drops-rhs", "C07", [(CL, "                    lhs_called_contests=lhs_called_contests,\n                    rhs_called_contests=rhs_called_contests,\n                )\n                alpha_to_agg_prediction_intervals = {}", "                    lhs_called_contests=lhs_called_contests,\n                )\n                alpha_to_agg_prediction_intervals = {}")], "C07.R4")
mut("c07-client-stop-not-forwarded", "C07", [(CL, "                        stop_model_call=stop_model_call,\n", "")], "C07.R4")
mut("c07-client-swaps-sides", "C07", [(CL, "                        lhs_called_contests=lhs_called_contests,\n                        rhs_called_contests=rhs_called_contests,\n                        stop_model_call", "                        lhs_called_contests=rhs_called_contests,\n                        rhs_called_contests=lhs_called_contests,\n                        stop_model_call")], "C07.R4")
mut("c07-model-reads-other-key", "C07", [(BS, "            stop_model_call = kwargs.get(\"stop_model_call\", [])", "            stop_model_call = kwargs.get(\"stop_model_calls\", [])")], "C07")
ben("c07-where-to-mask", ["C07"], [(BS, "            interval_upper = np.where((interval_upper < 0) & stop_model_call, self.lhs_called_threshold, interval_upper)", "            interval_upper = interval_upper.copy()\n            interval_upper[(interval_upper < 0) & stop_model_call] = self.lhs_called_threshold")])
ben("c07-intersection-method", ["C07"], [(BS, "lhs_rhs_intersection = set(lhs_called_contests) & set(rhs_called_contests)", "lhs_rhs_intersection = set(rhs_called_contests) & set(lhs_called_contests)")])

# ------------------------------------------------------------------------------------------- C09
CDF = D + "CombinedData.py"
ESF = D + "Estimandizer.py"
mut("c09-reporting-gt", "C09", [(CDF, "reporting_units = self.data[self.data.percent_expected_vote >= percent_reporting_threshold]", "reporting_units = self.data[self.data.percent_expected_vote > percent_reporting_threshold]")], "C09.R1")
mut("c09-nonreporting-le", "C09", [(CDF, "nonreporting_units = self.data[self.data.percent_expected_vote < percent_reporting_threshold]", "nonreporting_units = self.data[self.data.percent_expected_vote <= percent_reporting_threshold]")], "C09.R1")
mut("c09-tf-lower-strict", "C09", [(CDF, "(reporting_units.turnout_factor <= turnout_factor_lower)", "(reporting_units.turnout_factor < turnout_factor_lower)")], "C09.R1")
mut("c09-tf-upper-strict", "C09", [(CDF, "| (reporting_units.turnout_factor >= turnout_factor_upper)", "| (reporting_units.turnout_factor > turnout_factor_upper)")], "C09.R1")
mut("c09-tf-and", "C09", [(CDF, "                (reporting_units.turnout_factor <= turnout_factor_lower)\n                | (reporting_units.turnout_factor >= turnout_factor_upper)", "                (reporting_units.turnout_factor <= turnout_factor_lower)\n                & (reporting_units.turnout_factor >= turnout_factor_upper)")], "C09.R1")
mut("c09-blocklist-and", "C09", [(CDF, "            (self.data[\"geographic_unit_fips\"].isin(unit_blocklist))\n            | (self.data[\"postal_code\"].isin(postal_code_blocklist))", "            (self.data[\"geographic_unit_fips\"].isin(unit_blocklist))\n            & (self.data[\"postal_code\"].isin(postal_code_blocklist))")], "C09.R1")
mut("c09-nonmodelled-kept-in-nonreporting", "C09", [(CDF, "        nonreporting_units = nonreporting_units[\n            ~nonreporting_units.geographic_unit_fips.isin(non_modeled_units.geographic_unit_fips)\n        ].reset_index(drop=True)\n", "")], "C09.R1")
mut("c09-zero-baseline-only-reporting", "C09", [(CDF, "units_with_zero_baseline = self.data[self.data[\"geographic_unit_fips\"].isin(zero_baseline_units)].copy()", "units_with_zero_baseline = reporting_units[reporting_units[\"geographic_unit_fips\"].isin(zero_baseline_units)].copy()")], "C09.R1")
mut("c09-turnout-model-ignores-switch", "C09", [(CDF, "if fit_turnout_outlier_model and reporting_units.shape[0] > self.n_minimum_for_outlier_detection_model:", "if reporting_units.shape[0] > self.n_minimum_for_outlier_detection_model:")], "C09.R1")
mut("c09-margin-model-any-estimand", "C09", [(CDF, "        if \"margin\" in self.estimands:\n            if fit_margin_outlier_model and", "        if True:\n            if fit_margin_outlier_model and")], "C09.R1")
mut("c09-reason-order", "C09", [(CDF, "non_modeled_units_list = [units_blocklisted, units_with_zero_baseline, units_with_strange_turnout_factor]", "non_modeled_units_list = [units_with_zero_baseline, units_blocklisted, units_with_strange_turnout_factor]")], "C09.R2")
mut("c09-dedupe-keep-last", "C09", [(CDF, "pd.concat(non_modeled_units_list).reset_index(drop=True).drop_duplicates(subset=\"geographic_unit_fips\")", "pd.concat(non_modeled_units_list).reset_index(drop=True).drop_duplicates(subset=\"geographic_unit_fips\", keep=\"last\")")], "C09.R2")
mut("c09-nonreporting-flag", "C09", [(CDF, "        nonreporting_units[\"reporting\"] = int(0)", "        nonreporting_units[\"reporting\"] = int(1)")], "C09.R2")
mut("c09-category-name", "C09", [(CDF, "units_with_zero_baseline[\"unit_category\"] = \"non-modeled: zero baseline\"", "units_with_zero_baseline[\"unit_category\"] = \"zero baseline\"")], "C09.R2")
mut("c09-margin-plus", "C09", [(ESF, "data_df[generated_margin_column_name] = data_df[f\"{col_prefix}dem\"] - data_df[f\"{col_prefix}gop\"]", "data_df[generated_margin_column_name] = data_df[f\"{col_prefix}gop\"] - data_df[f\"{col_prefix}dem\"]")], "C09.R4")
mut("c09-weights-turnout", "C09", [(ESF, "data_df[generated_weights_column_name] = data_df[f\"{col_prefix}dem\"] + data_df[f\"{col_prefix}gop\"]", "data_df[generated_weights_column_name] = data_df[f\"{col_prefix}turnout\"]")], "C09.R4")
mut("c09-normalized-unguarded", "C09", [(ESF, "        data_df[f\"{col_prefix}margin\"] / data_df[f\"{col_prefix}weights\"], nan=0, posinf=0, neginf=0\n", "        data_df[f\"{col_prefix}margin\"] / data_df[f\"{col_prefix}weights\"], nan=0\n")], "C09.R3")
mut("c09-tf-inverted", "C09", [(ESF, "data_df.results_weights / data_df.baseline_weights, nan=0, posinf=0, neginf=0", "data_df.baseline_weights / data_df.results_weights, nan=0, posinf=0, neginf=0")], "C09.R4")
mut("c09-tf-nan-one", "C09", [(ESF, "data_df.results_weights / data_df.baseline_weights, nan=0, posinf=0, neginf=0", "data_df.results_weights / data_df.baseline_weights, nan=1, posinf=0, neginf=0")], "C09.R3")
mut("c09-args-swapped", "C09", [(CL, "            turnout_factor_lower,\n            turnout_factor_upper,\n            unit_blocklist,\n            postal_code_blocklist,", "            turnout_factor_lower,\n            turnout_factor_upper,\n            postal_code_blocklist,\n            unit_blocklist,")], "C09.R5")
mut("c09-default-upper", "C09", [(CL, 'model_parameters.get("turnout_factor_upper", 2.0)', 'model_parameters.get("turnout_factor_upper", 1.5)')], "C09.R5")
mut("c09-default-outlier-off", "C09", [(CL, 'model_parameters.get("fit_margin_outlier_model", True)', 'model_parameters.get("fit_margin_outlier_model", False)')], "C09.R5")
mut("c09-wrong-key", "C09", [(CL, 'outlier_z_threshold = model_parameters.get("outlier_z_threshold", 2.0)', 'outlier_z_threshold = model_parameters.get("z_threshold", 2.0)')], "C09.R5")
mut("c09-join-inner", "C09", [(CDF, 'data = preprocessed_data.merge(current_data, how="left", on=["postal_code", "geographic_unit_fips"])', 'data = preprocessed_data.merge(current_data, how="inner", on=["postal_code", "geographic_unit_fips"])')], "C09.R6")
mut("c09-join-outer", "C09", [(CDF, 'data = preprocessed_data.merge(current_data, how="left", on=["postal_code", "geographic_unit_fips"])', 'data = preprocessed_data.merge(current_data, how="outer", on=["postal_code", "geographic_unit_fips"])')], "C09.R6")
mut("c09-drop-all", "C09", [(CDF, 'data = data.dropna(axis=0, how="any", subset=result_cols)', 'data = data.dropna(axis=0, how="all", subset=result_cols)')], "C09.R6")
mut("c09-zero-keeps-pev", "C09", [(CDF, '            data.loc[indices_with_null_val, "percent_expected_vote"] = 0\n', '')], "C09.R6")
mut("c09-zero-mask-after-fill", "C09", [(CDF, "            indices_with_null_val = data[result_cols].isna().any(axis=1)\n            data.update(data[result_cols].fillna(value=0))\n", "            data.update(data[result_cols].fillna(value=0))\n            indices_with_null_val = data[result_cols].isna().any(axis=1)\n")], "C09.R6")
ben("c09-flipped-comparison", ["C09", "C01"], [(CDF, "reporting_units = self.data[self.data.percent_expected_vote >= percent_reporting_threshold]", "reporting_units = self.data[percent_reporting_threshold <= self.data.percent_expected_vote]")])
ben("c09-not-ge", ["C09", "C01"], [(CDF, "nonreporting_units = self.data[self.data.percent_expected_vote < percent_reporting_threshold]", "nonreporting_units = self.data[~(self.data.percent_expected_vote >= percent_reporting_threshold)]")])
ben("c09-weights-commuted", ["C09"], [(ESF, "data_df[generated_weights_column_name] = data_df[f\"{col_prefix}dem\"] + data_df[f\"{col_prefix}gop\"]", "data_df[generated_weights_column_name] = data_df[f\"{col_prefix}gop\"] + data_df[f\"{col_prefix}dem\"]")])

# ------------------------------------------------------------------------------------------- C01
BE = M + "BaseElectionModel.py"
MRF = D + "ModelResults.py"
mut("c01-unexpected-not-removed-noop", "C01", [(CDF, "        unexpected_units = (\n            self.current_data[~self.current_data[\"geographic_unit_fips\"].isin(expected_geographic_units)]", "        unexpected_units = (\n            self.current_data[self.current_data[\"geographic_unit_fips\"].isin(expected_geographic_units)]")], "C01.R1")
mut("c01-nonmodelled-not-removed-from-reporting", "C01", [(CDF, "        reporting_units = reporting_units[\n            ~reporting_units.geographic_unit_fips.isin(non_modeled_units.geographic_unit_fips)\n        ].reset_index(drop=True)\n", "")], "C01.R1")
mut("c01-threshold-gap", "C01", [(CDF, "nonreporting_units = self.data[self.data.percent_expected_vote < percent_reporting_threshold]", "nonreporting_units = self.data[self.data.percent_expected_vote < percent_reporting_threshold - 1]")], "C01.R1")
mut("c01-unexpected-dropped-from-third", "C01", [(CDF, "all_unexpected_units = pd.concat([unexpected_units, non_modeled_units]).reset_index(drop=True)", "all_unexpected_units = pd.concat([non_modeled_units]).reset_index(drop=True)")], "C01")
mut("c01-unit-table-drops-unexpected", "C01", [(MRF, "            [self.reporting_units, self.nonreporting_units, self.unexpected_units]\n        ).sort_values", "            [self.reporting_units, self.nonreporting_units]\n        ).sort_values")], "C01.R2")
mut("c01-unit-table-filter", "C01", [(MRF, "        self.unit_data[estimand] = pd.concat(\n            [self.reporting_units, self.nonreporting_units, self.unexpected_units]\n        ).sort_values(\"geographic_unit_fips\")[", "        all_units = pd.concat(\n            [self.reporting_units, self.nonreporting_units, self.unexpected_units]\n        )\n        self.unit_data[estimand] = all_units[all_units.unit_category != \"non-modeled: zero baseline\"].sort_values(\"geographic_unit_fips\")[")], "C01.R2")
mut("c01-handler-frames-swapped", "C01", [(CL, "aggregates, prediction_intervals, reporting_units, nonreporting_units, unexpected_units\n        )", "aggregates, prediction_intervals, reporting_units, unexpected_units, nonreporting_units\n        )")], "C01.R2")
mut("c01-merge-left-unexpected", "C01", [(BE, "                    unexpected_units_known_votes,\n                    how=\"outer\",", "                    unexpected_units_known_votes,\n                    how=\"left\",")], "C01.R3")
mut("c01-merge-left-preds", "C01", [(BE, "aggregate_votes.merge(aggregate_preds, how=\"outer\", on=aggregate)", "aggregate_votes.merge(aggregate_preds, how=\"left\", on=aggregate)")], "C01.R3")
mut("c01-fillna-misses-unexpected", "C01", [(BE, "                        f\"results_{estimand}_unexpected\": 0,\n", "")], "C01.R3")
mut("c01-results-only-not-added", "C01", [(BE, "f\"results_{estimand}\": lambda x: x[f\"results_{estimand}\"] + x[f\"results_only_{estimand}\"],", "f\"results_{estimand}\": lambda x: x[f\"results_{estimand}\"],")], "C01.R3")
mut("c01-reporting-ignores-unexpected", "C01", [(BE, "reporting_col: lambda x: x[\"reporting_expected\"] + x[\"reporting_unexpected\"],", "reporting_col: lambda x: x[\"reporting_expected\"],")], "C01.R3")
mut("c01-fillna-results-only-missing", "C01", [(BE, "                    f\"results_only_{estimand}\": 0,\n", "")], "C01.R3")
mut("c01-nonparam-overrides-agg", "C01", [(M + "NonparametricElectionModel.py", "    def get_all_conformalization_data_unit(self)", "    def get_aggregate_predictions(self, reporting_units, nonreporting_units, unexpected_units, aggregate, estimand, **kwargs):\n        empty = unexpected_units.iloc[0:0]\n        return super().get_aggregate_predictions(reporting_units, nonreporting_units, empty, aggregate, estimand)\n\n    def get_all_conformalization_data_unit(self)")], "C01.R3")
mut("c01-boot-results-margin-other-divisor", "C01", [(BS, "raw_margin_df[\"results_margin\"] = np.nan_to_num(raw_margin_df.results_margin / aggregate_z_total)", "raw_margin_df[\"results_margin\"] = np.nan_to_num(raw_margin_df.results_margin / (aggregate_z_train + aggregate_z_unexpected).flatten())")], "C01.R4")
mut("c01-boot-turnout-no-unexpected", "C01", [(BS, "        aggregate_z_total = (\n            aggregate_z_unexpected + aggregate_z_train + aggregate_indicator_test.T @ self.weighted_z_test_pred\n        ).flatten()\n\n        # use get_aggregate_predictions", "        aggregate_z_total = (\n            aggregate_z_train + aggregate_indicator_test.T @ self.weighted_z_test_pred\n        ).flatten()\n\n        # use get_aggregate_predictions")], "C01.R4")
mut("c01-boot-concat-order", "C01", [(BS, "        n_train = reporting_units.shape[0]\n        n_test = nonreporting_units.shape[0]\n\n        all_units = pd.concat([reporting_units, nonreporting_units, unexpected_units], axis=0)\n\n        # if we want to aggregate to something that isn't postal_code", "        n_train = reporting_units.shape[0]\n        n_test = nonreporting_units.shape[0]\n\n        all_units = pd.concat([reporting_units, unexpected_units, nonreporting_units], axis=0)\n\n        # if we want to aggregate to something that isn't postal_code")], "C01.R4")
mut("c01-boot-train-slice-off", "C01", [(BS, "        aggregate_indicator_train = aggregate_indicator_expected[:n_train]\n        aggregate_indicator_test = aggregate_indicator_expected[n_train:]\n        weights_train = reporting_units[\"baseline_weights\"].values.reshape(-1, 1)\n        z_train = reporting_units[\"turnout_factor\"].values.reshape(-1, 1)\n\n        # get turnout for aggregate (w_i * z_i)", "        aggregate_indicator_train = aggregate_indicator_expected[:n_test]\n        aggregate_indicator_test = aggregate_indicator_expected[n_train:]\n        weights_train = reporting_units[\"baseline_weights\"].values.reshape(-1, 1)\n        z_train = reporting_units[\"turnout_factor\"].values.reshape(-1, 1)\n\n        # get turnout for aggregate (w_i * z_i)")], "C01.R4")
mut("c01-merge-keys-old", "C01", [(MRF, "            merge_on = key_columns + [\"reporting\"]", "            merge_on = [\"postal_code\", \"reporting\", agg]")], "C01.R5")
mut("c01-merge-keys-unit-old", "C01", [(MRF, "merge_on = [\"postal_code\", \"reporting\", \"geographic_unit_fips\", \"unit_category\"]", "merge_on = [\"postal_code\", \"reporting\", \"geographic_unit_fips\"]")], "C01.R5")
mut("c01-keys-requested-only", "C01", [(CL, "            outlier_z_threshold,\n            aggregate_keys,\n        )", "            outlier_z_threshold,\n            aggregates,\n        )")], "C01.R6")
mut("c01-district-never-recovered", "C01", [(CDF, "        if \"district\" in aggregates:\n            unexpected_units[\"district\"]", "        if \"district\" in aggregates and \"county_fips\" not in aggregates:\n            unexpected_units[\"district\"]")], "C01.R6")
ben("c01-merge-keys-explicit", ["C01"], [(MRF, "            key_columns = [col for col in self.estimates[agg][0].columns if col in AGGREGATE_ORDER]\n            merge_on = key_columns + [\"reporting\"]", "            merge_on = [col for col in self.estimates[agg][0].columns if col in AGGREGATE_ORDER] + [\"reporting\"]")])
ben("c01-assign-order", ["C01"], [(BE, "                        results_col: lambda x: x[f\"results_{estimand}_expected\"] + x[f\"results_{estimand}_unexpected\"],\n                        reporting_col: lambda x: x[\"reporting_expected\"] + x[\"reporting_unexpected\"],", "                        reporting_col: lambda x: x[\"reporting_unexpected\"] + x[\"reporting_expected\"],\n                        results_col: lambda x: x[f\"results_{estimand}_unexpected\"] + x[f\"results_{estimand}_expected\"],")])
ben("c01-helper-local", ["C01"], [(BE, "        aggregate_votes = self._get_reporting_aggregate_votes(reporting_units, unexpected_units, aggregate, estimand)\n\n        # these are subunits that are not already counted", "        counted = self._get_reporting_aggregate_votes(reporting_units, unexpected_units, aggregate, estimand)\n        aggregate_votes = counted\n\n        # these are subunits that are not already counted")])

# ------------------------------------------------------------------------------------------- C02
NPF = M + "NonparametricElectionModel.py"
GEF = M + "GaussianElectionModel.py"
mut("c02-pred-uses-results-only", "C02", [(BE, "f\"pred_{estimand}\": lambda x: x[f\"results_{estimand}\"] + x[f\"pred_only_{estimand}\"],", "f\"pred_{estimand}\": lambda x: x[f\"results_{estimand}\"] + x[f\"results_only_{estimand}\"],")], "C02.R1")
mut("c02-pred-rename-swapped", "C02", [(BE, "                f\"pred_{estimand}\": f\"pred_only_{estimand}\",\n                f\"results_{estimand}\": f\"results_only_{estimand}\",", "                f\"pred_{estimand}\": f\"results_only_{estimand}\",\n                f\"results_{estimand}\": f\"pred_only_{estimand}\",")], "C02.R1")
mut("c02-pred-only-not-filled", "C02", [(BE, "                    f\"pred_only_{estimand}\": 0,\n", "")], "C02.R1")
mut("c02-np-lower-uses-upper", "C02", [(NPF, ".rename(columns={lower_string: f\"pi_lower_{estimand}\", upper_string: f\"pi_upper_{estimand}\"})[", ".rename(columns={upper_string: f\"pi_lower_{estimand}\", lower_string: f\"pi_upper_{estimand}\"})[")], "C02.R2")
mut("c02-np-merge-left", "C02", [(NPF, "aggregate_votes.merge(aggregate_prediction_intervals, how=\"outer\", on=aggregate)", "aggregate_votes.merge(aggregate_prediction_intervals, how=\"left\", on=aggregate)")], "C02.R3")
mut("c02-np-merge-inner", "C02", [(NPF, "aggregate_votes.merge(aggregate_prediction_intervals, how=\"outer\", on=aggregate)", "aggregate_votes.merge(aggregate_prediction_intervals, how=\"inner\", on=aggregate)")], "C02.R3")
mut("c02-np-no-sort", "C02", [(NPF, "            .sort_values(aggregate)[aggregate + [\"lower\", \"upper\"]]\n            .reset_index(drop=True)", "            .sort_values(aggregate, ascending=False)[aggregate + [\"lower\", \"upper\"]]\n            .reset_index(drop=True)")], "C02.R3")
mut("c02-np-no-reset-index", "C02", [(NPF, "            .sort_values(aggregate)[aggregate + [\"lower\", \"upper\"]]\n            .reset_index(drop=True)\n        )", "            .sort_values(aggregate)[aggregate + [\"lower\", \"upper\"]]\n        )")], "C02.R3")
mut("c02-np-fill-missing", "C02", [(NPF, ".fillna({f\"results_{estimand}\": 0, f\"pi_lower_{estimand}\": 0, f\"pi_upper_{estimand}\": 0})", ".fillna({f\"pi_lower_{estimand}\": 0, f\"pi_upper_{estimand}\": 0})")], "C02.R2")
mut("c02-np-args-swapped", "C02", [(NPF, "return PredictionIntervals(aggregate_data.lower.round(decimals=0), aggregate_data.upper.round(decimals=0))", "return PredictionIntervals(aggregate_data.upper.round(decimals=0), aggregate_data.lower.round(decimals=0))")], "C02.R5")
mut("c02-np-not-rounded", "C02", [(NPF, "return PredictionIntervals(aggregate_data.lower.round(decimals=0), aggregate_data.upper.round(decimals=0))", "return PredictionIntervals(aggregate_data.lower, aggregate_data.upper.round(decimals=0))")], "C02.R2")
mut("c02-gauss-merge-left", "C02", [(GEF, "aggregate_votes.merge(aggregate_prediction_intervals, how=\"outer\", on=aggregate)", "aggregate_votes.merge(aggregate_prediction_intervals, how=\"left\", on=aggregate)")], "C02.R3")
ben("c02-gauss-no-sort", ["C02"], [(GEF, "            .sort_values(aggregate)[aggregate + [\"lower\", \"upper\"]]\n            .reset_index(drop=True)", "            [aggregate + [\"lower\", \"upper\"]]\n            .reset_index(drop=True)")])  # outer merge already sorts by the keys
mut("c02-pred-table-no-sort", "C02", [(BE, "            .sort_values(aggregate)[aggregate + [f\"pred_{estimand}\", f\"results_{estimand}\", \"reporting\"]]\n            .reset_index(drop=True)", "            [aggregate + [f\"pred_{estimand}\", f\"results_{estimand}\", \"reporting\"]]\n            .sort_values(f\"pred_{estimand}\").reset_index(drop=True)")], "C02")
mut("c02-positions-swapped", "C02", [(MRF, "            estimates_df[f\"lower_{alpha}_{estimand}\"] = agg_interval_predictions[alpha][0]\n            estimates_df[f\"upper_{alpha}_{estimand}\"] = agg_interval_predictions[alpha][1]", "            estimates_df[f\"lower_{alpha}_{estimand}\"] = agg_interval_predictions[alpha][1]\n            estimates_df[f\"upper_{alpha}_{estimand}\"] = agg_interval_predictions[alpha][0]")], "C02.R5")
mut("c02-namedtuple-order", "C02", [(CF, 'PredictionIntervals = namedtuple("PredictionIntervals", ["lower", "upper", "conformalization"], defaults=(None,) * 3)', 'PredictionIntervals = namedtuple("PredictionIntervals", ["upper", "lower", "conformalization"], defaults=(None,) * 3)')], "C02.R5")
mut("c02-boot-pred-not-divided", "C02", [(BS, "raw_margin_df[\"pred_margin\"] = np.nan_to_num(raw_margin_df.pred_margin / aggregate_z_total).reshape(-1, 1)", "raw_margin_df[\"pred_margin\"] = np.nan_to_num(raw_margin_df.pred_margin / (aggregate_z_total + 1)).reshape(-1, 1)")], "C02.R4")
mut("c02-boot-group-key-order", "C02", [(BS, "            aggregate_temp_column_name = \"-\".join(aggregate)\n            all_units[aggregate_temp_column_name] = all_units[aggregate].agg(\"_\".join, axis=1)\n            dummies = pd.get_dummies(all_units[aggregate_temp_column_name])\n        else:\n            # since aggregate is of length zero", "            aggregate_temp_column_name = \"-\".join(aggregate)\n            all_units[aggregate_temp_column_name] = all_units[aggregate[::-1]].agg(\"_\".join, axis=1)\n            dummies = pd.get_dummies(all_units[aggregate_temp_column_name])\n        else:\n            # since aggregate is of length zero")], "C02.R3")
ben("c02-lower-upper-assign-swapped-order", ["C02"], [(NPF, "                lower=lambda x: x[f\"pi_lower_{estimand}\"] + x[f\"results_{estimand}\"],\n                upper=lambda x: x[f\"pi_upper_{estimand}\"] + x[f\"results_{estimand}\"],", "                upper=lambda x: x[f\"results_{estimand}\"] + x[f\"pi_upper_{estimand}\"],\n                lower=lambda x: x[f\"results_{estimand}\"] + x[f\"pi_lower_{estimand}\"],")])

# ------------------------------------------------------------------------------------------- C03
mut("c03-unit-pred-no-floor", "C03", [(CF, "        preds = np.maximum(\n            preds + nonreporting_units[f\"last_election_results_{estimand}\"], nonreporting_units[f\"results_{estimand}\"]\n        )", "        preds = preds + nonreporting_units[f\"last_election_results_{estimand}\"]")], "C03.R1")
mut("c03-unit-pred-floor-baseline", "C03", [(CF, "            preds + nonreporting_units[f\"last_election_results_{estimand}\"], nonreporting_units[f\"results_{estimand}\"]\n        )\n\n        # round since", "            preds + nonreporting_units[f\"last_election_results_{estimand}\"], nonreporting_units[f\"last_election_results_{estimand}\"]\n        )\n\n        # round since")], "C03.R1")
mut("c03-unit-pred-not-rounded", "C03", [(CF, "        return preds.round(decimals=0), None", "        return preds, None")], "C03.R1")
mut("c03-np-lower-no-floor", "C03", [(NPF, "        lower = np.maximum(\n            lower + nonreporting_units[f\"last_election_results_{estimand}\"], nonreporting_units[f\"results_{estimand}\"]\n        )", "        lower = lower + nonreporting_units[f\"last_election_results_{estimand}\"]")], "C03.R2")
mut("c03-np-upper-minimum", "C03", [(NPF, "        upper = np.maximum(\n            upper + nonreporting_units[f\"last_election_results_{estimand}\"]", "        upper = np.minimum(\n            upper + nonreporting_units[f\"last_election_results_{estimand}\"]")], "C03.R2")
mut("c03-gauss-upper-no-floor", "C03", [(GEF, "        upper = np.maximum(\n            upper + nonreporting_units[f\"last_election_results_{estimand}\"], nonreporting_units[f\"results_{estimand}\"]\n        )", "        upper = upper + nonreporting_units[f\"last_election_results_{estimand}\"]")], "C03.R2")
mut("c03-gauss-lower-floor-reporting", "C03", [(GEF, "        lower = np.maximum(\n            lower + nonreporting_units[f\"last_election_results_{estimand}\"], nonreporting_units[f\"results_{estimand}\"]\n        )", "        lower = np.maximum(\n            lower + nonreporting_units[f\"last_election_results_{estimand}\"], 0\n        )")], "C03.R2")
mut("c03-gauss-agg-lower-no-floor", "C03", [(GEF, "                predicted_lower=lambda x: np.maximum(\n                    x[f\"last_election_results_{estimand}\"] + x.lb, aggregate_nonreporting_votes[f\"results_{estimand}\"]\n                ),", "                predicted_lower=lambda x: x[f\"last_election_results_{estimand}\"] + x.lb,")], "C03.R3")
mut("c03-gauss-agg-upper-floor-zero", "C03", [(GEF, "                predicted_upper=lambda x: np.maximum(\n                    x[f\"last_election_results_{estimand}\"] + x.ub, aggregate_nonreporting_votes[f\"results_{estimand}\"]\n                ),", "                predicted_upper=lambda x: np.maximum(x[f\"last_election_results_{estimand}\"] + x.ub, 0),")], "C03.R3")
mut("c03-gauss-agg-no-counted", "C03", [(GEF, "                lower=lambda x: x.predicted_lower + x[f\"results_{estimand}\"],", "                lower=lambda x: x.predicted_lower,")], "C03.R3")
mut("c03-gauss-agg-fill-missing", "C03", [(GEF, ".fillna({f\"results_{estimand}\": 0, \"predicted_lower\": 0, \"predicted_upper\": 0})", ".fillna({\"predicted_lower\": 0, \"predicted_upper\": 0})")], "C03.R3")
mut("c03-gauss-early-return-wrong", "C03", [(GEF, "            return aggregate_votes[f\"results_{estimand}\"], aggregate_votes[f\"results_{estimand}\"]", "            return aggregate_votes[f\"results_{estimand}\"] * 0, aggregate_votes[f\"results_{estimand}\"]")], "C03.R3")
mut("c03-handler-pred-unexpected-zero", "C03", [(MRF, "        self.unexpected_units[f\"pred_{estimand}\"] = self.unexpected_units[f\"results_{estimand}\"]", "        self.unexpected_units[f\"pred_{estimand}\"] = 0")], "C03.R4")
mut("c03-handler-upper-reporting-pred", "C03", [(MRF, "            self.reporting_units[upper_string] = self.reporting_units[f\"results_{estimand}\"]", "            self.reporting_units[upper_string] = self.reporting_units[f\"pred_{estimand}\"] * 1.0")], "C03.R4")
mut("c03-handler-first-alpha-only", "C03", [(MRF, "        for alpha in self.prediction_interval_alphas:\n            lower_string = f\"lower_{alpha}_{estimand}\"\n            upper_string = f\"upper_{alpha}_{estimand}\"\n            interval_cols", "        for alpha in self.prediction_interval_alphas[:1]:\n            lower_string = f\"lower_{alpha}_{estimand}\"\n            upper_string = f\"upper_{alpha}_{estimand}\"\n            interval_cols")], "C03.R4")
mut("c03-handler-turnout-baseline", "C03", [(MRF, "        self.unexpected_units[\"pred_turnout\"] = self.unexpected_units[\"results_weights\"]", "        self.unexpected_units[\"pred_turnout\"] = self.unexpected_units[\"results_turnout\"]")], "C03.R4")
ben("c03-floor-args-swapped", ["C03", "C05"], [(CF, "        preds = np.maximum(\n            preds + nonreporting_units[f\"last_election_results_{estimand}\"], nonreporting_units[f\"results_{estimand}\"]\n        )", "        preds = np.maximum(\n            nonreporting_units[f\"results_{estimand}\"], preds + nonreporting_units[f\"last_election_results_{estimand}\"]\n        )")])
