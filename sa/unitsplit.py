"""Shared by C01 / C09 / C10: the three-way unit split of CombinedDataHandler.get_units as row-set formulas."""
from __future__ import annotations

from . import ir, rowsets as rs
from .model import AnalysisError

CD = "elexmodel.handlers.data.CombinedData"
SELF = ("param", "self")
DATA = ("attr", SELF, "data")
CUR = ("attr", SELF, "current_data")
PRE = ("attr", SELF, "preprocessed_data")


class UnitSplit:
    def __init__(self, ctx):
        self.ctx = ctx
        repo = ctx.repo
        self.f = ctx.fn(CD, "CombinedDataHandler.get_units")
        helpers = {"_get_unexpected_units", "_get_non_modeled_units", "_get_units_with_baseline_of_zero",
                   "_get_expected_geographic_unit_fips"}
        # the helpers are looked through (inlined) for the analysis: one that a refactoring has already inlined into its caller is not missed
        ctx.fn(CD, "CombinedDataHandler._fit_outlier_detection_model")
        for h in helpers:
            try:
                ctx.fn(CD, f"CombinedDataHandler.{h}")
            except AnalysisError:
                pass
        self.b = ctx.builder(inline=lambda caller, call, callee: callee.cls is not None and callee.cls.name == "CombinedDataHandler"
                             and callee.name in helpers)
        self.s = self.b.summarize(self.f)
        ret = self.s.ret()
        if not (ret[0] == "tuple" and len(ret[1]) == 3):
            raise AnalysisError(f"{self.f.where()}: get_units does not return a 3-tuple")
        self.R, self.N, self.U = ret[1]

        def opaque(t):
            if t[0] == "call" and t[1] == ("attr", SELF, "_fit_outlier_detection_model") and len(t[2]) >= 2 and t[2][1][0] == "const":
                return t[2][0], f"outlier:{t[2][1][1]}", f"flagged by the outlier model on {t[2][1][1]}"
            return None

        self.never_missing = self._never_missing()
        self.rs = rs.RowSets({DATA: "inData", CUR: "inFeed", PRE: "inBaseline"}, opaque, never_missing=self.never_missing)
        self.fR = self.rs.member(self.R)
        self.fN = self.rs.member(self.N)
        self.fU = self.rs.member(self.U)

    def _never_missing(self):
        """Columns of self.data that cannot hold a missing value, established from the code on every run: `turnout_factor` when
        the constructor stores the frame returned by Estimandizer.add_turnout_factor and that method defines the column as
        nan_to_num(.., nan=<number>); `percent_expected_vote` when the constructor fills the joined column with a number (it comes from
        the feed through a LEFT join, so without that it CAN be missing)."""
        ctx = self.ctx
        out = set()
        try:
            ini = ctx.fn(CD, "CombinedDataHandler.__init__")
            tf = ctx.fn("elexmodel.handlers.data.Estimandizer", "Estimandizer.add_turnout_factor")
            b = ctx.builder()
            dw = [w for w in b.summarize(ini).attr_writes if w[1] == "data"]
            through = bool(dw) and any(x[0] == "call" and x[1][0] == "attr" and x[1][2] == "add_turnout_factor" for x in ir.walk(dw[-1][2]))
            from .frames import Frames
            val = Frames(b).col(b.summarize(tf).ret(), ("const", "turnout_factor"))
            nan = dict(val[3]).get("nan", ("const", 0.0)) if val[0] == "call" else None
            guarded = (val[0] == "call" and ir.show(val[1]).endswith("nan_to_num") and nan is not None and nan[0] == "const"
                       and isinstance(nan[1], (int, float)) and nan[1] == nan[1])
            if through and guarded:
                out.add("turnout_factor")
            if dw and pev_filled(dw[-1][2]):
                out.add("percent_expected_vote")
        except AnalysisError:
            pass
        return frozenset(out)

    # the non-modelled concat and its items ------------------------------------------------------
    def nonmodelled(self):
        """-> (concat term, [(presence formula, frame term, category const)])"""
        u = self.U
        while u[0] in ("setitem", "setattr") or (u[0] == "call" and u[1][0] == "attr" and u[1][2] in ("reset_index", "copy")):
            u = u[1] if u[0] != "call" else u[1][1]
        if not (u[0] == "call" and u[1][0] == "global" and u[1][1].endswith("concat")):
            raise AnalysisError(f"{self.f.where()}: third frame is not a concat of unexpected and non-modelled units")
        parts = self.rs.items(u[2][0])
        if len(parts) != 2:
            raise AnalysisError(f"{self.f.where()}: third frame is a concat of {len(parts)} frames, expected unexpected + non-modelled")
        unexpected, nonmod = parts[0][1], parts[1][1]
        nm = nonmod
        wrappers = []
        while nm[0] == "call" and nm[1][0] == "attr" and nm[1][2] in ("reset_index", "copy", "drop_duplicates"):
            wrappers.append(nm)
            nm = nm[1][1]
        if not (nm[0] == "call" and nm[1][0] == "global" and nm[1][1].endswith("concat")):
            raise AnalysisError(f"{self.f.where()}: non-modelled units are not a concat of reason frames")
        items = []
        for cond, fr in self.rs.items(nm[2][0]):
            cat = category_of(fr)
            items.append((cond, fr, cat))
        return unexpected, nonmod, wrappers, items


def pev_filled(data_term):
    """the constructor stores a frame whose percent_expected_vote is  <merged frame>['percent_expected_vote'].fillna(<number>)
    (whenever the column exists): a baseline unit the feed gives no expected vote for then has a number there (F32)"""
    for x in ir.walk(data_term):
        if x[0] == "setitem" and x[2] == ("const", "percent_expected_vote"):
            v = x[3]
            if (v[0] == "call" and v[1][0] == "attr" and v[1][2] == "fillna" and v[2] and v[2][0][0] == "const"
                    and isinstance(v[2][0][1], (int, float)) and v[2][0][1] == v[2][0][1]
                    and v[1][1] == ("sub", x[1], ("const", "percent_expected_vote"))
                    and any(y[0] == "call" and y[1][0] == "attr" and y[1][2] == "merge" for y in ir.walk(x[1]))):
                return True
        # the same fill written on the frame: <merged frame>.fillna({'percent_expected_vote': <number>}) / .fillna(<number>)
        if x[0] == "call" and x[1][0] == "attr" and x[1][2] == "fillna" and any(y[0] == "call" and y[1][0] == "attr" and y[1][2] == "merge" for y in ir.walk(x[1][1])):
            arg = x[2][0] if x[2] else dict(x[3]).get("value")
            num = lambda c_: c_ is not None and c_[0] == "const" and isinstance(c_[1], (int, float)) and not isinstance(c_[1], bool) and c_[1] == c_[1]  # noqa: E731
            if arg is not None and arg[0] == "dict" and any(k_ == ("const", "percent_expected_vote") and num(v_) for k_, v_ in arg[1]):
                return True
    return False


def category_of(fr):
    t = fr
    while t[0] in ("setitem",) or (t[0] == "call" and t[1][0] == "attr" and t[1][2] in ("copy", "reset_index")):
        if t[0] == "setitem" and t[2] == ("const", "unit_category"):
            return t[3][1] if t[3][0] == "const" else None
        t = t[1] if t[0] == "setitem" else t[1][1]
    return None


def column_const(fr, col):
    """value of the last constant assignment frame[col] = <const> on the outer setitem chain, else None"""
    t = fr
    while True:
        if t[0] == "setitem":
            if t[2] == ("const", col):
                v = t[3]
                if v[0] == "const":
                    return v[1]
                if v[0] == "call" and v[1] == ("global", "int") and v[2] and v[2][0][0] == "const":
                    return int(v[2][0][1])
                return None
            t = t[1]
        elif t[0] == "loopout":
            t = t[3]
        elif t[0] == "call" and t[1][0] == "attr" and t[1][2] in ("reset_index", "copy"):
            t = t[1][1]
        else:
            return None
