"""Shared by C01 / C02 / C03 / C11 / C13: provenance of aggregate tables.

 * linear(value)      : canonical "sum of per-group sums" form of a Frames value, with the NaN discipline
                        (every operand that can be absent on one side of an outer join must be fill0'd before +);
 * Indicator          : the bootstrap model's indicator-matrix idiom  ind[rows].T @ v  read as a per-group sum over R / N / U;
 * agg_list / configs : constant folding of ModelClient.get_aggregate_list over the constant tables.
"""
from __future__ import annotations

import itertools

from . import ir
from .constfold import Folder
from .model import AnalysisError

class Undecided(AnalysisError):
    """a phi condition the caller gave no value for; `cond` is the condition term (see each_valuation)"""

    def __init__(self, cond, msg):
        super().__init__(msg)
        self.cond = cond


def each_valuation(fn, flags, limit=3):
    """Evaluate fn(flags) for every valuation of the phi conditions it meets that `flags` does not decide (a defensive
    `if column in frame.columns`, an option test): -> [(extra: {cond: bool}, result)]. A table has to be right on every path that a
    run can take, so callers judge each valuation; more than `limit` undecided conditions is an analysis error."""
    out = []

    def rec(extra):
        fl = dict(flags)
        fl.update(extra)
        try:
            out.append((dict(extra), fn(fl)))
        except Undecided as u:
            if len(extra) >= limit:
                raise
            for v in (True, False):
                e2 = dict(extra)
                e2[u.cond] = v
                rec(e2)
    rec({})
    return out


def when(extra):
    return "" if not extra else " [when " + " and ".join(("" if v else "not ") + ir.show(c, maxdepth=3) for c, v in extra.items()) + "]"


R_, N_, U_ = ("param", "reporting_units"), ("param", "nonreporting_units"), ("param", "unexpected_units")
FRAME_NAMES = {R_: "R", N_: "N", U_: "U"}


def linear(v, flags, problems, sign=1, filled=False):
    """-> list of (sign, atom) where atom is ('gsum', frame, value, keys) or another value term.
    flags: dict cond-term -> bool chosen for phi conditions (missing -> AnalysisError)."""
    k = v[0]
    if k == "fill0":
        return linear(v[1], flags, problems, sign, True)
    if k == "nullable":
        if not filled:
            problems.append(("nullable-unfilled", v))
        return linear(v[1], flags, problems, sign, False)
    if k == "bin" and v[1] in ("+", "-"):
        out = []
        for i, (x, s) in enumerate(((v[2], sign), (v[3], sign if v[1] == "+" else -sign))):
            if x[0] == "nullable":
                problems.append(("nan-add", x))
            out += linear(x, flags, problems, s, False)
        return out
    if k == "phi":
        c = v[1]
        if c[0] == "const":
            return linear(v[2] if c[1] else v[3], flags, problems, sign, filled)
        if c not in flags:
            raise Undecided(c, f"undecided condition in aggregate provenance: {ir.show(c, maxdepth=3)}")
        return linear(v[2] if flags[c] else v[3], flags, problems, sign, filled)
    if k == "rowsel":
        return linear(v[1], flags, problems, sign, filled)
    return [(sign, v)]


def describe_atom(a):
    if a[0] == "gsum":
        fr = FRAME_NAMES.get(a[1], ir.show(a[1], maxdepth=2))
        val = a[2]
        if val[0] == "col":
            val = ir.show(val[2])
        else:
            val = ir.show(val, maxdepth=3)
        return f"S_{fr}({val})"
    return ir.show(a, maxdepth=3)


def gsum_atoms(lin):
    """multiset summary: {(frame letter, column text, sign)}"""
    out = []
    for s, a in lin:
        if a[0] == "gsum" and a[1] in FRAME_NAMES and a[2][0] == "col" and a[2][1] == a[1]:
            out.append((FRAME_NAMES[a[1]], ir.show(a[2][2]), s, a[3]))
        else:
            out.append(("?", describe_atom(a), s, None))
    return out


def conds_in(v):
    out = []
    for t in ir.walk(v):
        if t[0] == "phi" and t[1] not in out:
            out.append(t[1])
    return out


# ---------------------------------------------------------------------------------------------
class Indicator:
    """Row bookkeeping for  all_units = pd.concat([R, N, U]);  ind = pd.get_dummies(all_units[key]).values;
    ind[: nR + nN][nR:] ...  Positions are linear forms over (nR, nN, nU)."""

    def __init__(self, env):
        self.env = env  # name -> term for n_train / n_test style locals is already substituted in terms

    @staticmethod
    def count(t):
        """row-count expression -> dict over {'R','N','U'} or None"""
        if t[0] == "sub" and t[2] == ("const", 0) and t[1][0] == "attr" and t[1][2] == "shape" and t[1][1] in FRAME_NAMES:
            return {FRAME_NAMES[t[1][1]]: 1}
        if t[0] == "call" and t[1] == ("global", "len") and t[2] and t[2][0] in FRAME_NAMES:
            return {FRAME_NAMES[t[2][0]]: 1}
        if t[0] == "bin" and t[1] == "+":
            a, b = Indicator.count(t[2]), Indicator.count(t[3])
            if a is None or b is None:
                return None
            out = dict(a)
            for k, v in b.items():
                out[k] = out.get(k, 0) + v
            return out
        if t[0] == "const" and t[1] == 0:
            return {}
        return None

    def rows(self, t):
        """indicator slice term -> (root dummies term, (lo, hi)) with lo/hi dicts; root = the get_dummies(...) term"""
        if t[0] == "attr" and t[2] == "values":
            return t[1], ({}, {"R": 1, "N": 1, "U": 1})
        if _is_dummies(t):
            return t, ({}, {"R": 1, "N": 1, "U": 1})
        if t[0] == "sub" and t[2][0] == "slice":
            root, (lo, hi) = self.rows(t[1])
            s = t[2]
            if s[3] != ("const", None):
                raise AnalysisError("strided slice of the indicator matrix")
            if s[1] != ("const", None):
                a = self.count(s[1])
                if a is None:
                    raise AnalysisError(f"indicator slice bound not a row count: {ir.show(s[1], maxdepth=3)}")
                new_lo = _add(lo, a)
            else:
                new_lo = lo
            if s[2] != ("const", None):
                b = self.count(s[2])
                if b is None:
                    raise AnalysisError(f"indicator slice bound not a row count: {ir.show(s[2], maxdepth=3)}")
                new_hi = _add(lo, b)
            else:
                new_hi = hi
            return root, (new_lo, new_hi)
        raise AnalysisError(f"not an indicator-matrix slice: {ir.show(t, maxdepth=3)}")

    @staticmethod
    def segment(lo, hi):
        lo = {k: v for k, v in lo.items() if v}
        hi = {k: v for k, v in hi.items() if v}
        table = {
            ((), (("R", 1),)): "R",
            ((("R", 1),), (("N", 1), ("R", 1))): "N",
            ((("N", 1), ("R", 1)), (("N", 1), ("R", 1), ("U", 1))): "U",
            ((), (("N", 1), ("R", 1))): "RN",
            ((), (("N", 1), ("R", 1), ("U", 1))): "RNU",
        }
        key = (tuple(sorted(lo.items())), tuple(sorted(hi.items())))
        return table.get(key)


def _is_dummies(t):
    if t[0] == "phi":
        return _is_dummies(t[2]) and _is_dummies(t[3])
    return t[0] == "call" and t[1][0] == "global" and t[1][1].endswith("get_dummies")


def _add(a, b):
    out = dict(a)
    for k, v in b.items():
        out[k] = out.get(k, 0) + v
    return out


def concat_order(t):
    """pd.concat([A, B, C], axis=0) -> [A, B, C]"""
    if t[0] == "call" and t[1][0] == "global" and t[1][1].endswith("concat") and t[2] and t[2][0][0] == "list":
        return list(t[2][0][1])
    return None


# ---------------------------------------------------------------------------------------------
def client_folder(ctx):
    repo = ctx.repo
    b = ctx.builder()
    f = ctx.fn("elexmodel.client", "ModelClient.get_aggregate_list")
    s = b.summarize(f)
    ret = s.ret()
    dd = {"elexmodel.utils.constants:DEFAULT_AGGREGATES"}

    def agg_list(office, agg):
        fo = Folder(repo, b, {("param", "office"): office, ("param", "aggregate"): agg}, defaultdicts=dd)
        return fo.ev(ret)

    return agg_list


def offices(ctx):
    d = ctx.repo.const_value("elexmodel.utils.constants", "DEFAULT_AGGREGATES")
    return d


def office_classes(ctx):
    """distinct default-aggregate lists (office classes) + the unknown office; thorough tier: every office of the table"""
    d = offices(ctx)
    if ctx.tier == "thorough":
        return [(o, list(lst)) for o, lst in d.items()] + [("<unknown office>", [])]
    classes = {}
    for o, lst in d.items():
        classes.setdefault(tuple(lst), o)
    out = [(rep, list(k)) for k, rep in classes.items()]
    out.append(("<unknown office>", []))
    return out


def request_lists(order, tier):
    """requested aggregate lists to enumerate: every non-empty subset of AGGREGATE_ORDER (+ 'unit'); thorough: all orders"""
    items = list(order)
    out = []
    for r in range(1, len(items) + 1):
        for comb in itertools.combinations(items, r):
            if tier == "thorough":
                for perm in itertools.permutations(comb):
                    out.append(list(perm) + ["unit"])
            else:
                out.append(list(comb) + ["unit"])
    return out


def _strip_shape(t):
    while (t[0] == "call" and t[1][0] == "attr" and t[1][2] in ("flatten", "reshape", "copy")) or (t[0] == "attr" and t[2] == "values"):
        t = t[1][1] if t[0] == "call" else t[1]
    return t


def matsum_components(term):
    """term = a + b + c with each addend  ind[rows].T @ v  ->  list of (segment, value description, concat order ok)
    Column reads may be raw IR (frame['c'] / frame.c) or Frames values ('col', frame, name)."""
    term = _strip_shape(term)
    parts = []

    def flat(t):
        if t[0] == "bin" and t[1] == "+":
            flat(t[2]); flat(t[3])  # noqa: E702
        else:
            parts.append(t)

    flat(term)
    ind = Indicator({})
    out = []
    for t in parts:
        if not (t[0] == "bin" and t[1] == "@" and t[2][0] == "attr" and t[2][2] == "T"):
            out.append(("?", f"not an indicator product: {ir.show(t, maxdepth=3)}", False))
            continue
        try:
            root, (lo, hi) = ind.rows(t[2][1])
        except AnalysisError as e:
            out.append(("?", str(e), False))
            continue
        seg = Indicator.segment(lo, hi) or "rows[" + "+".join(f"n{k}" for k in sorted(lo)) + ":" + "+".join(f"n{k}" for k in sorted(hi)) + "]"
        order = None
        for x in ir.walk(root):
            o = concat_order(x)
            if o is not None:
                order = o
                break
        v = _strip_shape(t[3])
        refs = []
        for x in ir.walk(v):
            if x[0] == "col" and x[2][0] == "const":
                refs.append((x[1], x[2][1], x))
            elif x[0] == "sub" and x[2][0] == "const" and isinstance(x[2][1], str) and (x[1] in FRAME_NAMES or x[1] == ("param", "self")):
                refs.append((x[1], x[2][1], x))
            elif x[0] == "attr" and x[1] in FRAME_NAMES and x[2] not in ("values", "shape", "T"):
                refs.append((x[1], x[2], x))
            elif x[0] == "attr" and x[1] == ("param", "self"):
                refs.append((x[1], x[2], x))
        frames = {r[0] for r in refs}
        if frames == {("param", "self")} and len(refs) == 1:
            desc = f"self.{refs[0][1]}"
        elif len(frames) == 1 and FRAME_NAMES.get(next(iter(frames))) == seg:
            desc = "*".join(sorted(r[1] for r in refs))
        elif not refs:
            desc = f"expression without column reads: {ir.show(v, maxdepth=3)}"
        else:
            desc = "rows of " + "/".join(sorted(FRAME_NAMES.get(fr, "self") for fr in frames)) + ": " + "*".join(sorted(r[1] for r in refs))
        out.append((seg, desc, order == [R_, N_, U_]))
    return out


CLS_FLAG = ("cmp", "in", ("const", "county_classification"), ("param", "aggregate"))


def empty_slice_of(t, frame):
    """t == frame.iloc[:0] / frame[:0] / frame.head(0)"""
    if t[0] == "sub" and t[2] == ("slice", ("const", None), ("const", 0), ("const", None)):
        base = t[1]
        if base[0] == "attr" and base[2] in ("iloc", "loc"):
            base = base[1]
        return base == frame
    if t[0] == "call" and t[1] == ("attr", frame, "head") and t[2] == (("const", 0),):
        return True
    return False


def non_classification_view(term):
    """Rewrite  phi('county_classification' in aggregate ? <empty slice of U> : U)  to U: the view of a term on the
    non-classification levels (where unexpected units take part)."""
    m = {}
    for x in ir.walk(term):
        if x[0] == "phi" and x[1] == CLS_FLAG and x[3] == U_ and empty_slice_of(x[2], U_):
            m[x] = U_
    return ir.subst(term, m) if m else term
