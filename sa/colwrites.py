"""Column writes of a frame term, read semantically: WHICH named columns get WHICH value, for which loop domain - whatever the loops
that do the writing look like (one loop writing lower and upper; one loop per side; a loop over a list of column names that was itself
built in a loop over the levels ..)."""
from . import ir


def strip_ids(t):
    """loop / comprehension ids erased: terms from different loops over the same domain compare equal"""
    if not isinstance(t, tuple):
        return t
    if t and t[0] == "elem" and len(t) == 3:
        return ("elem", strip_ids(t[1]), 0)
    if t and t[0] == "loopin" and len(t) == 4:
        return ("loopin", t[1], 0, strip_ids(t[3]))
    if t and t[0] == "loopout" and len(t) == 6:
        return ("loopout", 0, t[2], strip_ids(t[3]), strip_ids(t[4]), strip_ids(t[5]))
    return tuple(strip_ids(x) for x in t)


def list_templates(L, depth=0):
    """the element templates of a list-valued term, or None when it is not a list built from displays:
    [a, b] -> a, b;  x + y -> both;  list built in a loop over D by append(t) / extend([t1, t2]) / += [t] -> the templates (they mention
    elem(D));  [t for a in D] -> t"""
    if depth > 6 or not isinstance(L, tuple) or not L:
        return None
    k = L[0]
    if k in ("list", "tuple"):
        return list(L[1])
    if k == "bin" and L[1] == "+":
        a, b = list_templates(L[2], depth + 1), list_templates(L[3], depth + 1)
        return None if a is None or b is None else a + b
    if k == "comp":
        return [L[2]]
    if k == "loopout":
        init = list_templates(L[3], depth + 1)
        body = list_templates(L[4], depth + 1)
        return None if init is None or body is None else init + body
    if k == "loopin":
        return []
    if k == "mut" and L[2] in ("append", "extend") and len(L[3]) == 1:
        base = list_templates(L[1], depth + 1)
        if base is None:
            return None
        if L[2] == "append":
            return base + [L[3][0]]
        add = list_templates(L[3][0], depth + 1)
        return None if add is None else base + add
    if k == "call" and L[1] == ("global", "list") and len(L[2]) <= 1:
        return [] if not L[2] else list_templates(L[2][0], depth + 1)
    if k == "phi":
        return None
    return None


def column_writes(T):
    """[(key template, value term)] of every `frame[key] = value` that builds the frame term T, loops looked through; a key that is the
    element of a list of templates stands for each of them. Ids are stripped."""
    out = []
    seen = set()

    def rec(t):
        if not isinstance(t, tuple) or not t or id(t) in seen:
            return
        seen.add(id(t))
        if t[0] == "setitem":
            key, val = t[2], t[3]
            keys = [key]
            if key[0] == "elem":
                tpl = list_templates(key[1])
                if tpl:
                    keys = tpl
            for k_ in keys:
                out.append((strip_ids(k_), strip_ids(val)))
            rec(t[1])
        elif t[0] == "loopout":
            rec(t[4])
            rec(t[3])
        elif t[0] == "phi":
            for x in t[1:]:
                rec(x)
    rec(T)
    return out


def _prefix(k):
    if k[0] == "const" and isinstance(k[1], str):
        return k[1], True
    if k[0] == "fstr" and k[1] and k[1][0][0] == "const" and isinstance(k[1][0][1], str):
        return k[1][0][1], False
    return None, False


def keys_differ(a, b):
    """two column-name terms that certainly name different columns (constant texts that differ / templates with incompatible constant
    heads)"""
    if a == b:
        return False
    pa, fa = _prefix(a)
    pb, fb = _prefix(b)
    if pa is None or pb is None:
        return False
    if fa and fb:
        return pa != pb
    n = min(len(pa), len(pb))
    if pa[:n] != pb[:n]:
        return True
    # one is a complete constant that is shorter than the other's constant head
    if fa and len(pa) < len(pb):
        return True
    if fb and len(pb) < len(pa):
        return True
    return False


def read_column(frame, key):
    """frame[key] resolved through the column writes on top of the frame: ('col', base frame term, key) or the written value"""
    t = frame
    key = strip_ids(key)
    while isinstance(t, tuple) and t and t[0] == "setitem":
        k_ = strip_ids(t[2])
        if k_ == key:
            return strip_ids(t[3])
        if not keys_differ(k_, key):
            return None
        t = t[1]
    return ("col", strip_ids(t), key)


def dict_entries(t):
    """a dictionary built over a domain, in either spelling: {k(a): v(a) for a in D}  or  d = {}; for a in D: d[k(a)] = v(a)
    -> [(key template, value template, domain)] with ids stripped, or None"""
    if not isinstance(t, tuple) or not t:
        return None
    if t[0] == "comp" and t[1] == "dict" and len(t[3]) == 1 and not t[3][0][2] and t[2][0] == "tuple" and len(t[2][1]) == 2:
        return [(strip_ids(t[2][1][0]), strip_ids(t[2][1][1]), strip_ids(t[3][0][1]))]
    if t[0] == "loopout" and t[3] in (("dict", ()), ("call", ("global", "dict"), (), ())):
        out, body = [], t[4]
        while body[0] == "setitem":
            out.append((strip_ids(body[2]), strip_ids(body[3]), strip_ids(t[5])))
            body = body[1]
        return out if body[0] == "loopin" and out else None
    return None


def row_filters(t, base):
    """a row selection of `base`, in any nesting: base[a & b], base.loc[a][b'], base[a].loc[b'] .. -> the list of element-wise conditions
    over `base` that a row has to meet (a condition computed on an intermediate selection is rewritten over `base`: selecting rows does
    not change a row's values), or None when t is not such a selection"""
    conds = []
    inner = []
    cur = t
    while cur != base:
        if cur[0] == "call" and cur[1][0] == "attr" and cur[1][2] in ("copy", "reset_index") and not cur[2]:
            cur = cur[1][1]
            continue
        if cur[0] == "sub":
            src = cur[1][1] if cur[1][0] == "attr" and cur[1][2] == "loc" else cur[1]
            inner.append((src, cur[2]))
            cur = src
            continue
        return None

    def flat(m):
        if m[0] == "bin" and m[1] == "&":
            return flat(m[2]) + flat(m[3])
        return [m]
    for src, mask in inner:
        m = ir.subst(mask, {src: base}) if src != base else mask
        # deeper intermediates inside the mask
        for s2, _ in inner:
            if s2 != base and any(x == s2 for x in ir.walk(m)):
                m = ir.subst(m, {s2: base})
        conds += flat(m)
    return conds
