"""E5 - frame algebra: lazy provenance of pandas pipelines over def-use terms.

`Frames.col(frame_term, name_term)` answers "what is column `name` of this frame, in terms of columns of base frames?"
by walking the pipeline backwards (setitem chains, assign/rename/fillna/merge/groupby-sum/column selection/...).
Result: a *value term*:
   ('col', base_frame_term, name)                      column of a base (opaque) frame
   ('gsum', rows_term, value_term, keys)               per-group sum of a unit-level value over the rows of a frame
   ('fill0', v)                                        NaN (group absent on that side of an outer join) replaced by 0
   ('lit', const)                                      broadcast scalar
   arithmetic ('bin', op, a, b), calls on values, ...  element-wise expressions
Anything not understood raises AnalysisError (exit 2), never a guess.

`Frames.rows(frame_term)` gives the row universe:
   ('base', t) | ('filter', rows, mask_term) | ('groups', rows, keys) | ('join', how, L, R, on) | ('concat', (rows..)) | ('same', ..)
`Frames.order(frame_term)`: 'sorted' (by the group/merge keys), 'left', 'unknown'.
"""
from __future__ import annotations

from . import ir
from .model import AnalysisError

ROW_AND_COL_PRESERVING = {"reset_index", "copy", "sort_values", "drop_duplicates", "astype", "round", "flatten", "to_numpy", "sample"}
ELEMENTWISE_FUNCS = {"maximum", "minimum", "nan_to_num", "sqrt", "power", "abs", "round", "where", "isclose", "floor", "ceil",
                     "exp", "log", "clip"}


def name_key(t):
    """canonical hashable key of a column-name term"""
    return t


def names_equal(a, b):
    return a == b


def const_name(t):
    return t[1] if t[0] == "const" and isinstance(t[1], str) else None


def possibly_equal(a, b):
    """Could two column-name terms denote the same string? Patterns with different constant prefixes cannot (assumption:
    estimand names do not themselves start with another pattern's constant part)."""
    if a == b:
        return True
    ca, cb = const_name(a), const_name(b)
    if ca is not None and cb is not None:
        return ca == cb
    pa = _prefix(a)
    pb = _prefix(b)
    if pa is None or pb is None:
        return True
    # one prefix must be a prefix of the other for the names to be able to coincide
    if not (pa.startswith(pb) or pb.startswith(pa)):
        return False
    sa, sb = _suffix(a), _suffix(b)
    if sa is not None and sb is not None and not (sa.endswith(sb) or sb.endswith(sa)):
        return False
    # same shape: differ only in constant parts -> different unless the hole differs
    if a[0] == "fstr" and b[0] == "fstr" and len(a[1]) == len(b[1]):
        holes_a = [p for p in a[1] if p[0] != "const"]
        holes_b = [p for p in b[1] if p[0] != "const"]
        if holes_a == holes_b:
            return a == b
    if (ca is not None) != (cb is not None):
        # constant vs pattern with a hole: equal only if the hole can fill the gap; assume estimand-like holes are
        # non-empty identifiers, so 'reporting' != f'results_{e}' (prefix test above) but 'results_x' may equal f'results_{e}'
        return True
    return True


def _prefix(t):
    if t[0] == "const" and isinstance(t[1], str):
        return t[1]
    if t[0] == "fstr":
        return t[1][0][1] if t[1][0][0] == "const" else ""
    return None


def _suffix(t):
    if t[0] == "const" and isinstance(t[1], str):
        return t[1]
    if t[0] == "fstr":
        return t[1][-1][1] if t[1][-1][0] == "const" else ""
    return None


def match(key, name):
    """True: same column; False: provably different; AnalysisError: cannot decide (symbolic names that may coincide)."""
    if key == name:
        return True
    if not possibly_equal(key, name):
        return False
    ck, cn = const_name(key), const_name(name)
    if ck is not None and cn is not None:
        return ck == cn
    if key[0] == "fstr" and name[0] == "fstr" and len(key[1]) == len(name[1]):
        holes_k = [p for p in key[1] if p[0] != "const"]
        holes_n = [p for p in name[1] if p[0] != "const"]
        if holes_k == holes_n:
            return False  # same holes, different constant parts
    raise AnalysisError(f"cannot decide whether column {ir.show(key)} is {ir.show(name)} (bind the estimand to a constant)")


def comp_selects(comp, name):
    """Does the column list `[c for c in <frame>.columns if <prefix / equality tests on c>]` contain column `name`?
    True / False, AnalysisError when undecidable."""
    if not (comp[0] == "comp" and len(comp[3]) == 1 and comp[2][0] == "elem"):
        raise AnalysisError(f"column list {ir.show(comp, maxdepth=3)} not understood")
    gen = comp[3][0]
    if not (gen[1][0] == "attr" and gen[1][2] == "columns"):
        raise AnalysisError(f"column list {ir.show(comp, maxdepth=3)} is not a selection from <frame>.columns")
    elem = comp[2]

    def lead(n):
        """constant prefix of a column-name term, and whether it is the whole name"""
        if n[0] == "const" and isinstance(n[1], str):
            return n[1], True
        if n[0] == "fstr" and n[1] and n[1][0][0] == "const":
            return n[1][0][1], False
        raise AnalysisError(f"column name {ir.show(n)} has no constant prefix")

    pre, whole = lead(name)

    def ev(c):
        if c[0] == "bool":
            vals = [ev(x) for x in c[2]]
            return any(vals) if c[1] == "or" else all(vals)
        if c[0] == "un" and c[1] == "not":
            return not ev(c[2])
        if c[0] == "call" and c[1] == ("attr", elem, "startswith") and c[2] and c[2][0][0] == "const":
            p = c[2][0][1]
            ps = p if isinstance(p, tuple) else (p,)
            for q in ps:
                if pre.startswith(q):
                    return True
                if not whole and q.startswith(pre):
                    raise AnalysisError(f"cannot decide whether {ir.show(name)} starts with {q!r}")
            return False
        if c[0] == "cmp" and c[1] in ("==", "!=") and c[2] == elem and c[3][0] == "const":
            if not whole:
                if isinstance(c[3][1], str) and c[3][1].startswith(pre):
                    raise AnalysisError(f"cannot decide whether {ir.show(name)} is {c[3][1]!r}")
                return c[1] == "!="
            return (pre == c[3][1]) == (c[1] == "==")
        raise AnalysisError(f"column filter {ir.show(c, maxdepth=3)} not understood")

    return all(ev(c) for c in gen[2])


class Frames:
    def __init__(self, builder, bases=None):
        self.b = builder
        self.bases = bases or {}
        self.memo = {}

    def is_base(self, t):
        return t in self.bases or t[0] == "param"

    # ---------------------------------------------------------------------------------------
    def col(self, fr, name):
        key = (fr, name)
        if key in self.memo:
            return self.memo[key]
        v = self._col(fr, name)
        self.memo[key] = v
        return v

    def _col(self, fr, name):
        if self.is_base(fr):
            return ("col", fr, name)
        k = fr[0]
        if k == "setitem":
            obj, key, val = fr[1], fr[2], fr[3]
            if key[0] == "list":
                if any(match(x, name) for x in key[1]):
                    raise AnalysisError(f"multi-column assignment to {ir.show(key)} not resolved")
                return self.col(obj, name)
            if key[0] in ("const", "fstr"):
                if match(key, name):
                    return self.value(val, obj)
                return self.col(obj, name)
            if key[0] == "tuple":
                raise AnalysisError(f".loc assignment {ir.show(key, maxdepth=3)} not resolved")
            if key[0] == "comp":
                sel = comp_selects(key, name)
                if not sel:
                    return self.col(obj, name)
                # frame[cols] = frame[cols].fillna(c): the column keeps its values, missing ones become c
                if val[0] == "call" and val[1][0] == "attr" and val[1][2] == "fillna" and val[1][1] == ("sub", obj, key):
                    fv = dict(val[3]).get("value", val[2][0] if val[2] else None)
                    if fv == ("const", 0):
                        return ("fill0", self.col(obj, name))
                raise AnalysisError(f"multi-column assignment {ir.show(key, maxdepth=3)} := {ir.show(val, maxdepth=3)} not resolved")
            raise AnalysisError(f"assignment with computed key {ir.show(key, maxdepth=3)}")
        if k == "setattr" and fr[2] in ("loc",) and fr[3][0] == "setitem" and fr[3][1] == ("attr", fr[1], "loc"):
            # frame.loc[mask, column] = value: the column is `value` on the rows of the mask and what it was on the others
            obj, key, val = fr[1], fr[3][2], fr[3][3]
            if key[0] == "tuple" and len(key[1]) == 2:
                mask, ck = key[1]
                names = list(ck[1]) if ck[0] == "list" else [ck]
                hit = False
                for x in names:
                    if x[0] not in ("const", "fstr"):
                        raise AnalysisError(f".loc assignment to computed columns {ir.show(ck, maxdepth=3)} not resolved")
                    hit = hit or match(x, name)
                if not hit:
                    return self.col(obj, name)
                if mask[0] == "slice":
                    return self.value(val, obj)
                return ("where", self.value(mask, obj), self.value(val, obj), self.col(obj, name))
            raise AnalysisError(f".loc assignment {ir.show(key, maxdepth=3)} not resolved")
        if k == "phi":
            a, b = self.col(fr[2], name), self.col(fr[3], name)
            return a if a == b else ("phi", fr[1], a, b)
        if k in ("loopout",):
            body = fr[4]
            # column assigned in a generic iteration?
            t = body
            while t[0] in ("setitem", "setattr"):
                if t[0] == "setattr":
                    if t[2] == "loc" and t[3][0] == "setitem" and t[3][2][0] == "tuple" and len(t[3][2][1]) == 2:
                        ck = t[3][2][1][1]
                        try:
                            hit = ck[0] in ("const", "fstr") and match(ck, name)
                        except AnalysisError:
                            hit = _unify_elem(ck, name)
                        if hit:
                            return ("where", self.value(t[3][2][1][0], t[1]), self.value(t[3][3], t[1]), self.col(t[1], name))
                    t = t[1]
                    continue
                try:
                    hit = match(t[2], name)
                except AnalysisError:
                    hit = _unify_elem(t[2], name)
                if hit:
                    return self.value(t[3], t[1])
                t = t[1]
            return self.col(fr[3], name)
        if k == "loopin":
            return self.col(fr[3], name)
        if k == "sub":
            base, idx = fr[1], fr[2]
            if idx[0] in ("list", "bin"):  # column selection
                return self.col(base, name)
            return ("rowsel", self.col(base, name), idx)
        if k == "call":
            f = fr[1]
            if f[0] == "attr":
                m, recv = f[2], f[1]
                if m in ROW_AND_COL_PRESERVING:
                    return self.col(recv, name)
                if m == "rename":
                    cols = dict(fr[3]).get("columns")
                    if cols is None or cols[0] != "dict":
                        raise AnalysisError("rename without a literal columns mapping")
                    for old, new in cols[1]:
                        if match(new, name):
                            return self.col(recv, old)
                    for old, new in cols[1]:
                        if match(old, name):
                            raise AnalysisError(f"column {ir.show(name)} was renamed away")
                    return self.col(recv, name)
                if m == "fillna":
                    arg = fr[2][0] if fr[2] else dict(fr[3]).get("value")
                    v = self.col(recv, name)
                    if arg is not None and arg[0] == "dict":
                        for kk, vv in arg[1]:
                            if match(kk, name):
                                if vv == ("const", 0):
                                    return ("fill0", v)
                                return ("fill", v, vv)
                        return v
                    if arg == ("const", 0):
                        return ("fill0", v)
                    raise AnalysisError(f"fillna argument not understood: {ir.show(arg) if arg else None}")
                if m == "assign":
                    for kk, vv in fr[3]:
                        if kk is None and vv[0] == "dict":
                            for k2, v2 in vv[1]:
                                if match(k2, name):
                                    return self._assign_value(v2, recv)
                        elif kk is not None and match(("const", kk), name):
                            return self._assign_value(vv, recv)
                    return self.col(recv, name)
                if m == "merge":
                    return self._merge_col(fr, name)
                if m == "drop":
                    return self.col(recv, name)
                if m == "sum" and recv[0] == "call" and recv[1][0] == "attr" and recv[1][2] == "groupby":
                    src = recv[1][1]
                    keys = recv[2][0]
                    return ("gsum", src, self.col(src, name), keys)
                if m == "agg" and recv[0] == "call" and recv[1][0] == "attr" and recv[1][2] == "groupby":
                    src = recv[1][1]
                    keys = recv[2][0]
                    for kk, vv in fr[3]:
                        if kk is None and vv[0] == "dict":
                            for k2, v2 in vv[1]:
                                if k2 == name and v2[0] == "tuple" and v2[1][1] == ("const", "sum"):
                                    return ("gsum", src, self.col(src, v2[1][0]), keys)
                    raise AnalysisError(f"groupby.agg for column {ir.show(name)} not understood")
            if f[0] == "global" and f[1].endswith("concat"):
                raise AnalysisError("column of a concat: use rows()/col on the parts")
            if f[0] == "global" and f[1].endswith("DataFrame") and fr[2] and fr[2][0][0] == "dict":
                for kk, vv in fr[2][0][1]:
                    if kk is not None and match(kk, name):
                        return self.value(vv)
                raise AnalysisError(f"DataFrame literal has no column {ir.show(name)}")
        raise AnalysisError(f"column {ir.show(name)} of {ir.show(fr, maxdepth=3)} not resolved by the frame algebra")

    def _distinct(self, a, b):
        return not possibly_equal(a, b)

    def _assign_value(self, v, recv):
        if v[0] == "lambda":
            body = self.b.lambda_apply(v, [recv])
            return self.value(body, recv)
        return self.value(v, recv)

    def _merge_col(self, fr, name):
        left = fr[1][1]
        right = fr[2][0]
        kws = dict(fr[3])
        how = kws.get("how", ("const", "inner"))
        on = kws.get("on")
        suffixes = kws.get("suffixes", ("tuple", (("const", "_x"), ("const", "_y"))))
        how = how[1]
        # key column
        if on is not None and (on == name or (on[0] == "list" and name in on[1]) or on[0] in ("param", "bin") and self._name_in_keys(name, on)):
            return ("key", name)
        ls, rs = suffixes[1][0][1], suffixes[1][1][1]
        cn = const_name(name)
        cand = []
        if name[0] == "fstr" or cn is not None:
            # suffixed?
            base_l = self._strip_suffix(name, ls)
            base_r = self._strip_suffix(name, rs)
            if base_l is not None:
                cand.append(("L", base_l))
            if base_r is not None:
                cand.append(("R", base_r))
        for side, base in cand:
            try:
                src = left if side == "L" else right
                v = self.col(src, base)
                return self._nullable(v, how, side)
            except AnalysisError:
                continue
        # unsuffixed: present in exactly one side
        vl = vr = None
        try:
            vl = self.col(left, name)
        except AnalysisError:
            pass
        try:
            vr = self.col(right, name)
        except AnalysisError:
            pass
        lhas = vl is not None and self.has_col(left, name)
        rhas = vr is not None and self.has_col(right, name)
        if lhas and not rhas:
            return self._nullable(vl, how, "L")
        if rhas and not lhas:
            return self._nullable(vr, how, "R")
        raise AnalysisError(f"merge: cannot decide which side provides column {ir.show(name)} (left={lhas}, right={rhas})")

    def _nullable(self, v, how, side):
        if how == "outer" or (how == "left" and side == "R") or (how == "right" and side == "L"):
            return ("nullable", v)
        return v

    def _strip_suffix(self, name, suf):
        if not suf:
            return None
        if name[0] == "const" and name[1].endswith(suf):
            return ("const", name[1][: -len(suf)])
        if name[0] == "fstr" and name[1][-1][0] == "const" and name[1][-1][1].endswith(suf):
            rest = name[1][-1][1][: -len(suf)]
            parts = name[1][:-1] + ((("const", rest),) if rest else ())
            if len(parts) == 1 and parts[0][0] == "const":
                return parts[0]
            return ("fstr", parts)
        return None

    def _name_in_keys(self, name, keys):
        return False

    def has_col(self, fr, name):
        """Conservative: can frame `fr` have a column called `name`? Closed schemas (explicit selections) are exact;
        open frames answer True unless the name was renamed away."""
        k = fr[0]
        if self.is_base(fr):
            return True
        if k == "sub" and fr[2][0] in ("list", "bin"):
            names = self._names_of(fr[2])
            if names is not None:
                # ('keys', aggregate) entries are the geographic grouping keys: never a value column
                return any(n == name for n in names) or any(n[0] not in ("const", "fstr", "keys") for n in names)
            return True
        if k == "setitem":
            return fr[2] == name or self.has_col(fr[1], name)
        if k == "call" and fr[1][0] == "attr":
            m, recv = fr[1][2], fr[1][1]
            if m == "rename":
                cols = dict(fr[3]).get("columns")
                if cols and cols[0] == "dict":
                    if any(new == name for old, new in cols[1]):
                        return True
                    if any(old == name for old, new in cols[1]):
                        return False
                return self.has_col(recv, name)
            if m in ROW_AND_COL_PRESERVING or m in ("fillna", "drop"):
                return self.has_col(recv, name)
            if m == "assign":
                for kk, vv in fr[3]:
                    if kk is None and vv[0] == "dict" and any(k2 == name for k2, _ in vv[1]):
                        return True
                    if kk is not None and ("const", kk) == name:
                        return True
                return self.has_col(recv, name)
            if m == "sum" and recv[0] == "call" and recv[1][0] == "attr" and recv[1][2] == "groupby":
                return self.has_col(recv[1][1], name)
        if k == "phi":
            return self.has_col(fr[2], name) or self.has_col(fr[3], name)
        return True

    def _names_of(self, idx):
        if idx[0] == "list":
            return list(idx[1])
        if idx[0] == "bin" and idx[1] == "+":
            a, b = self._names_of(idx[2]), self._names_of(idx[3])
            if a is None or b is None:
                return None
            return a + b
        if idx[0] == "param":
            return [("keys", idx)]
        return None

    # ---------------------------------------------------------------------------------------
    FRAME_METHODS = {"merge", "assign", "rename", "fillna", "reset_index", "copy", "sort_values", "drop", "drop_duplicates", "sample",
                     "query", "head", "tail", "sum", "agg", "apply", "dropna", "astype"}
    NON_FRAME_PARAMS = {"self", "alpha", "estimand", "aggregate", "col_prefix", "conf_frac", "correction_quantile", "scores"}

    def is_frame(self, t):
        if t in self.bases:
            return True
        k = t[0]
        if k == "param":
            return t[1] not in self.NON_FRAME_PARAMS and not t[1].startswith("*")
        if k in ("setitem", "loopout", "loopin"):
            return True
        if k == "phi":
            return self.is_frame(t[2]) and self.is_frame(t[3])
        if k == "call" and t[1][0] == "attr" and t[1][2] in self.FRAME_METHODS:
            return self.is_frame(t[1][1]) or (t[1][1][0] == "call" and t[1][1][1][0] == "attr" and t[1][1][1][2] == "groupby")
        if k == "call" and t[1][0] == "global" and t[1][1].endswith(("DataFrame", "concat")):
            return True
        if k == "sub":
            idx = t[2]
            if idx[0] in ("const", "fstr") and not (idx[0] == "const" and not isinstance(idx[1], str)):
                return False  # a column
            return self.is_frame(t[1])
        if k == "attr" and t[2] in ("loc", "iloc"):
            return self.is_frame(t[1])
        return False

    def value(self, v, ctx_frame=None):
        """Resolve the column reads inside an element-wise expression; everything else is left as it is.
        A bare constant becomes ('lit', c) (broadcast scalar)."""
        if v[0] == "const":
            return ("lit", v[1])
        return self._value(v)

    def _value(self, v):
        key = ("v", v)
        if key in self.memo:
            return self.memo[key]
        r = self._value0(v)
        self.memo[key] = r
        return r

    def _value0(self, v):
        k = v[0]
        if k == "sub" and v[2][0] in ("const", "fstr") and not (v[2][0] == "const" and not isinstance(v[2][1], str)) and self.is_frame(v[1]):
            try:
                return self.col(v[1], v[2])
            except AnalysisError:
                return ("col", v[1], v[2])  # opaque column of an unresolved frame
        if k == "attr" and self.is_frame(v[1]) and v[2] not in ("values", "shape", "columns", "index", "T", "loc", "iloc", "str", "dtypes"):
            try:
                return self.col(v[1], ("const", v[2]))
            except AnalysisError:
                return ("col", v[1], ("const", v[2]))
        if k == "call" and any(kk == "#new" for kk, _ in v[3]):
            return v
        if k in ("const", "param", "global", "lambda", "closure", "unknown"):
            return v
        if k == "call" and v[1][0] == "attr" and v[1][2] == "fillna" and (v[2] == (("const", 0),) or dict(v[3]).get("value") == ("const", 0)) and len(v[2]) + len(v[3]) == 1:
            inner = self._value(v[1][1])
            if inner[0] in ("col", "gsum", "fill0", "nullable", "where"):
                return ("fill0", inner) if inner[0] != "fill0" else inner  # <column>.fillna(0): the per-column spelling of frame.fillna({column: 0})
        if k == "call" and v[1][0] == "attr":
            # a method call: the callee attribute is not a column read
            f = ("attr", self._value(v[1][1]), v[1][2])
            return ir.I(("call", f, tuple(self._value(a) for a in v[2]), tuple((kk, self._value(vv)) for kk, vv in v[3])))
        return ir.map_children(v, self._value)


def _unify_elem(key, name):
    """inside a loop over estimands: f'residuals_{elem}' unifies with f'residuals_{estimand}' (same constant parts)"""
    if key[0] == "fstr" and name[0] == "fstr" and len(key[1]) == len(name[1]):
        return all((a == b) if a[0] == "const" else b[0] != "const" for a, b in zip(key[1], name[1]))
    return False


def strip(v):
    """drop 'nullable' / 'fill0' / 'rowsel' wrappers (for comparing the underlying quantity)"""
    while v[0] in ("nullable", "fill0", "rowsel"):
        v = v[1]
    return v


# ---------------------------------------------------------------------------------------------
def signature(fr, flags, notes=None):
    """Row signature of an aggregate table: (universe, order, index)
    universe: frozenset of ('G', base_frame) group sources (union) or ('inter', a, b) / ('unknown', why)
    order   : 'sorted' (ascending by the grouping / merge keys), 'left', 'unknown'
    index   : 'range' (0..n-1) or 'unknown'
    flags   : cond-term -> bool for phi conditions."""
    k = fr[0]
    if k == "phi":
        if fr[1][0] == "const":
            return signature(fr[2] if fr[1][1] else fr[3], flags, notes)
        if fr[1] not in flags:
            from .aggmodel import Undecided
            raise Undecided(fr[1], f"undecided condition in row signature: {ir.show(fr[1], maxdepth=3)}")
        return signature(fr[2] if flags[fr[1]] else fr[3], flags, notes)
    if k == "setitem":
        return signature(fr[1], flags, notes)
    if k == "sub":
        if fr[2][0] in ("list", "bin", "const", "fstr"):
            return signature(fr[1], flags, notes)  # column selection
        u, o, i = signature(fr[1], flags, notes)
        return ("filtered", u, fr[2]), o, "unknown"
    if k == "attr":
        return signature(fr[1], flags, notes)  # frame.col
    if k == "call":
        f = fr[1]
        if f[0] == "attr":
            m, recv = f[2], f[1]
            if m == "reset_index":
                kw = dict(fr[3])
                if recv[0] == "call" and recv[1][0] == "attr" and recv[1][2] in ("sum", "size", "agg", "apply", "mean") and _is_groupby(recv[1][1]):
                    src = recv[1][1][1][1]
                    keys = recv[1][1][2][0]
                    gkw = dict(recv[1][1][3])
                    order = "sorted" if gkw.get("sort", ("const", True)) == ("const", True) else "unknown"
                    return frozenset([("G", src, keys)]), order, "range"
                u, o, i = signature(recv, flags, notes)
                return u, o, "range"
            if m in ("rename", "fillna", "assign", "drop", "copy", "astype", "round"):
                return signature(recv, flags, notes)
            if m == "sort_values":
                u, o, i = signature(recv, flags, notes)
                by = fr[2][0] if fr[2] else dict(fr[3]).get("by")
                asc = dict(fr[3]).get("ascending", ("const", True))
                by_keys = by is not None and by[0] == "param"  # the aggregate key list itself
                return u, ("sorted" if asc == ("const", True) and by_keys else f"sorted by {ir.show(by, maxdepth=2) if by else '?'}"
                           + ("" if asc == ("const", True) else " descending")), "unknown"
            if m == "merge":
                lu, lo, li = signature(recv, flags, notes)
                ru, ro, ri = signature(fr[2][0], flags, notes)
                how = dict(fr[3]).get("how", ("const", "inner"))[1]
                if how == "outer":
                    uni = _union(lu, ru)
                    return uni, "sorted", "range"
                if how == "left":
                    return lu, lo, "range"
                if how == "right":
                    return ru, ro, "range"
                if how == "cross":
                    return lu, lo, "range"
                return ("inter", lu, ru), lo, "range"
    return ("unknown", ir.show(fr, maxdepth=2)), "unknown", "unknown"


def _is_groupby(t):
    return t[0] == "call" and t[1][0] == "attr" and t[1][2] == "groupby"


def _union(a, b):
    if isinstance(a, frozenset) and isinstance(b, frozenset):
        return a | b
    return ("union", a, b)


def foreign_column_reads(builder, frames, assign_call):
    """For `recv.assign(k=lambda x: ...)`: column reads inside the lambdas from frames other than the receiver.  pandas
    combines those with the receiver's columns by index label, i.e. *positionally* when both carry a fresh range index, so
    the two frames must list the same groups in the same order.  -> [(kw name, foreign frame term)]"""
    PH = ir.I(("param", "#assign-receiver"))
    out = []
    for k, v in assign_call[3]:
        if k is None or v[0] != "lambda":
            continue
        body = builder.lambda_apply(v, [PH])
        seen = set()

        def rec(y):
            if y in seen or not isinstance(y, tuple):
                return
            seen.add(y)
            is_col = (y[0] == "sub" and y[2][0] in ("const", "fstr") and not (y[2][0] == "const" and not isinstance(y[2][1], str))) or \
                (y[0] == "attr" and y[2] not in ("values", "loc", "iloc", "shape", "columns", "index", "T"))
            if is_col and y[1] != PH and frames.is_frame(y[1]) and not any(z == PH for z in ir.walk(y[1])) \
                    and not (y[1][0] == "param" and y[1][1] == "self"):
                if (k, y[1]) not in out:
                    out.append((k, y[1]))
                return  # a column of a foreign frame: do not look inside the frame expression
            for ch in ir.children(y):
                rec(ch)

        rec(body)
    return out


def vector_value(F, t):
    """A per-group vector handed back by an aggregate function -> its frame-algebra value: a table column (`frame[col]`, `frame.col`,
    possibly rounded / re-indexed) or a Series group sum `frame.groupby(keys)[col].sum()`. Raises AnalysisError otherwise."""
    while t[0] == "call" and t[1][0] == "attr" and t[1][2] in ("round", "reset_index", "copy", "astype"):
        t = t[1][1]
    if t[0] == "attr" and t[2] == "values":
        t = t[1]
    if t[0] == "sub" and t[2][0] in ("const", "fstr"):
        return F.col(t[1], t[2])
    if t[0] == "attr" and t[2] not in ("values", "T", "index", "columns", "iloc", "loc"):
        return F.col(t[1], ("const", t[2]))
    if t[0] == "call" and t[1][0] == "attr" and t[1][2] == "sum" and t[1][1][0] == "sub":
        g_, c_ = t[1][1][1], t[1][1][2]
        if _is_groupby(g_) and c_[0] in ("const", "fstr"):
            return ("gsum", g_[1][1], F.col(g_[1][1], c_), g_[2][0])
    raise AnalysisError(f"returned vector {ir.show(t, maxdepth=4)} is neither a table column nor a group sum")


def where_form(v):
    """an element-wise selection in one normal form: (condition, value where it holds, value where it does not), whatever it was written as -
    numpy.where(c, a, b); s.where(c, b) [= where(c, s, b)]; s.mask(c, a) [= where(c, a, s)]; frame.loc[c, col] = a  [('where', c, a, old)];
    a negated condition swaps the branches. None when v is not a selection."""
    if not isinstance(v, tuple) or not v:
        return None
    out = None
    if v[0] == "where" and len(v) == 4:
        out = (v[1], v[2], v[3])
    elif v[0] == "call" and v[1][0] == "global" and v[1][1] in ("numpy.where",) and len(v[2]) == 3:
        out = (v[2][0], v[2][1], v[2][2])
    elif v[0] == "call" and v[1][0] == "attr" and v[1][2] in ("where", "mask") and 1 <= len(v[2]) <= 2:
        other = v[2][1] if len(v[2]) == 2 else dict(v[3]).get("other", ("const", float("nan")))
        out = (v[2][0], v[1][1], other) if v[1][2] == "where" else (v[2][0], other, v[1][1])
    if out is None:
        return None
    c, a, b = out
    while c[0] == "un" and c[1] in ("~", "not"):
        c, a, b = c[2], b, a
    lit = lambda x: ("lit", x[1]) if x[0] == "const" else x  # noqa: E731
    return c, lit(a), lit(b)
