"""Shared by C03 / C04 / C05 / C10 / C16: def-use terms of the conformal unit-level model functions and an atomizer that
names the quantities the properties talk about."""
from __future__ import annotations

from . import ir, symexpr

CM = "elexmodel.models.ConformalElectionModel"
NPM = "elexmodel.models.NonparametricElectionModel"
GEM = "elexmodel.models.GaussianElectionModel"
E = ("param", "estimand")
RU, NU = ("param", "reporting_units"), ("param", "nonreporting_units")


def col(frame, prefix):
    return ("sub", frame, ir.I(("fstr", (("const", prefix), E))))


def leaf(t):
    """names for symexpr: N.results / N.last / R.residuals / R.last ..."""
    if t[0] == "sub" and t[1] in (RU, NU) and t[2][0] == "fstr" and len(t[2][1]) == 2 and t[2][1][1] == E:
        fr = "R" if t[1] == RU else "N"
        return f"{fr}.{t[2][1][0][1]}e"
    if t[0] == "sub" and t[1] in (RU, NU) and t[2][0] == "const" and isinstance(t[2][1], str):
        return f"{'R' if t[1] == RU else 'N'}.{t[2][1]}"
    if t[0] == "attr" and t[1] in (RU, NU):
        return f"{'R' if t[1] == RU else 'N'}.{t[2]}"
    if t[0] == "param":
        return t[1]
    return None


def normalizer(extra=None):
    def lf(t):
        if extra is not None:
            r = extra(t)
            if r is not None:
                return r
        return leaf(t)

    return symexpr.Normalizer(leaf=lf)


def floor_shape(t):
    """t == round0(maximum(g, N.results_e))  -> (g, ok_round, ok_floor). Works on IR terms."""
    ok_round = t[0] == "call" and t[1][0] == "attr" and t[1][2] == "round" and (
        dict(t[3]).get("decimals", ("const", 0)) == ("const", 0) and not t[2])
    inner = t[1][1] if ok_round else t
    if inner[0] == "call" and inner[1][0] == "global" and inner[1][1].endswith("maximum") and len(inner[2]) == 2:
        a, b = inner[2]
        res = col(NU, "results_")
        if b == res:
            return a, ok_round, True
        if a == res:
            return b, ok_round, True
    return inner, ok_round, False
