"""Runner: `python -m sa.run <ID> [--tier quick|thorough] [--replay file]`.

Exit 0: all rule instances pass (known findings printed as KNOWN-FINDING lines).
Exit 1: at least one violation not listed in known_findings.json (VIOLATION line per violation).
Exit 2: analysis error (anchor vanished / construct not understood / internal error): ANALYSIS-ERROR line, no VIOLATION.
"""
from __future__ import annotations

import argparse
import importlib
import json
import os
import sys
import time
import traceback

from .model import AnalysisError, Repo

VERIF = os.path.dirname(os.path.dirname(os.path.abspath(__file__)))


class Ob:
    __slots__ = ("rule", "key", "ok", "where", "detail", "nontrivial")

    def __init__(self, rule, key, ok, where, detail, nontrivial=True):
        self.rule, self.key, self.ok, self.where, self.detail, self.nontrivial = rule, key, ok, where, detail, nontrivial

    def as_dict(self):
        return {"rule": self.rule, "key": self.key, "verdict": "pass" if self.ok else "violation",
                "where": self.where, "detail": self.detail}


class Ctx:
    def __init__(self, prop, tier, seed, repo_root=None):
        self.prop = prop
        self.tier = tier
        self.seed = seed
        self.repo = Repo(repo_root)
        self.obs = []
        self.notes = []
        self.counts = {}
        self.assumptions = []
        self.trusted = []
        self.analysed_functions = []
        self.explanation = ""
        self._builder = None
        self._cg = None
        self._res = None
        self.extra = {}

    # lazily built shared engines -------------------------------------------------------------
    @property
    def resolver(self):
        if self._res is None:
            from .callgraph import Resolver
            self._res = Resolver(self.repo)
        return self._res

    @property
    def cg(self):
        if self._cg is None:
            from .callgraph import CallGraph
            self._cg = CallGraph(self.repo, self.resolver)
        return self._cg

    def builder(self, inline=None, max_depth=None):
        from .ir import Builder
        if max_depth is None:
            max_depth = 3 if self.tier == "quick" else 6
        b = Builder(self.repo, inline=inline, max_depth=max_depth)
        b.resolver = self.resolver
        return b

    # obligations -----------------------------------------------------------------------------
    def ob(self, rule, key, ok, where, detail="", nontrivial=True):
        self.obs.append(Ob(rule, key, bool(ok), where, detail, nontrivial))
        return bool(ok)

    def fn(self, modname, qual):
        f = self.repo.func(modname, qual)
        if f.fq not in self.analysed_functions:
            self.analysed_functions.append(f.fq)
        return f

    def require(self, cond, what):
        if not cond:
            raise AnalysisError(what)

    def sites(self, rule, found, minimum, what):
        """Non-vacuity: a rule must match at least the number of sites confirmed by reading."""
        self.counts[f"{rule}.sites"] = found
        if found < minimum:
            raise AnalysisError(f"{rule}: matched {found} site(s) of '{what}', expected at least {minimum} "
                                f"(anchor moved or construct not recognised)")

    def selftest(self, rule, flagged, what):
        """Built-in positive example of a rule whose expected violation count is zero must be flagged."""
        self.counts[f"{rule}.selftest"] = 1
        if not flagged:
            raise AnalysisError(f"{rule}: built-in positive example not flagged ({what}); rule is broken")

    def borrow(self, other_prop, rule_prefix, as_prefix, why, key=None):
        """Re-state obligations of ANOTHER property's check under this property's ids: the other module's check() runs on a scratch
        context that shares this one's program model, and its obligations whose rule id starts with `rule_prefix` are copied with
        the prefix replaced by `as_prefix`. Used where one structural fact is a necessary condition of two statements (e.g. "every
        outstanding group gets a gaussian model" for C15 and for C03's floor). -> number of obligations copied"""
        import importlib
        sub = Ctx(other_prop, self.tier, self.seed, self.repo.root)
        sub.repo, sub._res, sub._cg = self.repo, self._res, self._cg
        importlib.import_module(f"sa.props.{other_prop.lower()}").check(sub)
        n = 0
        for o in sub.obs:
            if o.rule.startswith(rule_prefix) and (key is None or key(o.key)):
                self.ob(as_prefix + o.rule[len(rule_prefix):], o.key, o.ok, o.where, (o.detail + f" [{why}]") if not o.ok else o.detail, o.nontrivial)
                n += 1
        for fq in sub.analysed_functions:
            if fq not in self.analysed_functions:
                self.analysed_functions.append(fq)
        return n

    def note(self, s):
        self.notes.append(s)

    def count(self, name, n=1):
        self.counts[name] = self.counts.get(name, 0) + n


def load_known():
    p = os.path.join(VERIF, "known_findings.json")
    if not os.path.isfile(p):
        return []
    with open(p) as f:
        return json.load(f).get("findings", [])


def main(argv=None):
    ap = argparse.ArgumentParser()
    ap.add_argument("prop")
    ap.add_argument("--tier", default=os.environ.get("VERIF_TIER", "quick"), choices=["quick", "thorough"])
    ap.add_argument("--replay", default=None)
    ap.add_argument("--repo", default=None)
    ap.add_argument("--no-evidence", action="store_true")
    ap.add_argument("--json", action="store_true", help="print obligations as JSON (selftest use)")
    a = ap.parse_args(argv)
    prop = a.prop.upper()
    seed = int(os.environ.get("VERIF_SEED", "0") or 0)
    t0 = time.time()
    status = 0
    ctx = None
    err = None
    try:
        ctx = Ctx(prop, a.tier, seed, a.repo)
        mod = importlib.import_module(f"sa.props.{prop.lower()}")
        mod.check(ctx)
        if not ctx.obs:
            raise AnalysisError("no obligation was evaluated (vacuous run)")
    except AnalysisError as e:
        err = f"{e}"
        status = 2
    except Exception as e:  # internal error: never a pass, never a violation
        err = f"internal error: {type(e).__name__}: {e}\n" + traceback.format_exc()
        status = 2

    audit = None
    if a.tier == "thorough" and status != 2 and not a.replay and not a.repo:
        # sensitivity audit of the checker itself on seeded variants of the CURRENT tree; never changes the verdict
        try:
            audit = run_audit(prop, seed)
            for m in audit["missed"]:
                print(f"AUDIT-WARNING property={prop} seeded change not flagged: {m}")
            for m in audit["false_alarms"]:
                print(f"AUDIT-WARNING property={prop} behaviour-preserving variant flagged: {m}")
        except Exception as e:  # the audit must never break a check
            audit = {"error": f"{type(e).__name__}: {e}"}
        if ctx is not None:
            ctx.extra["mutant_audit"] = audit

    known = [k for k in load_known() if k.get("property") == prop]
    open_known = [k for k in known if k.get("status") == "open"]
    violations, known_hits = [], []
    if ctx is not None and status != 2:
        for o in ctx.obs:
            if o.ok:
                continue
            hit = next((k for k in open_known if k.get("rule") == o.rule and k.get("key") == o.key), None)
            if hit is not None:
                known_hits.append((o, hit))
            else:
                violations.append(o)

    replay_filter = None
    if a.replay:
        with open(a.replay) as f:
            rp = json.load(f)
        replay_filter = (rp.get("rule"), rp.get("key"))
        violations = [o for o in violations if (o.rule, o.key) == replay_filter]
        known_hits = [x for x in known_hits if (x[0].rule, x[0].key) == replay_filter]

    wall = time.time() - t0
    if a.json:
        print(json.dumps({"status": status, "error": err,
                          "obligations": [o.as_dict() for o in (ctx.obs if ctx else [])]}))
    if status == 2:
        print(f"ANALYSIS-ERROR property={prop} {err.splitlines()[0] if err else ''}")
        if err and "\n" in err:
            sys.stderr.write(err + "\n")
    else:
        for o, k in known_hits:
            print(f"KNOWN-FINDING: property={prop} {k.get('what', o.detail)} [{o.rule} @ {o.where}]")
        if violations:
            status = 1
            rdir = os.path.join(VERIF, "evidence", "replay")
            os.makedirs(rdir, exist_ok=True)
            for i, o in enumerate(violations, 1):
                rp = os.path.join(rdir, f"{prop}-{i}.json")
                if not a.replay:
                    with open(rp, "w") as f:
                        json.dump({"property": prop, "rule": o.rule, "key": o.key, "where": o.where,
                                   "detail": o.detail}, f, indent=1)
                else:
                    rp = a.replay
                print(f"VIOLATION property={prop} replay={rp}")
                print(f"  rule {o.rule} at {o.where}: {o.detail}  [key: {o.key}]")
        if not a.json:
            n = len(ctx.obs)
            print(f"{prop} {a.tier}: {n} obligations, {n - len(violations) - len(known_hits)} pass, "
                  f"{len(known_hits)} known finding(s), {len(violations)} violation(s); {wall:.2f}s")

    if not a.no_evidence and not a.replay:
        write_evidence(prop, a.tier, seed, ctx, status, err, violations, known_hits, wall)
    return status


def run_audit(prop, seed):
    """Runs the seeded-variant corpus of this property (sa/mutants.py) against the check in scratch copies under $TMPDIR."""
    import concurrent.futures as cf
    import random
    from . import selftest
    MUT, BEN = selftest.load_corpus()
    jobs = [("mutant", m, [prop]) for m in MUT if m["prop"] == prop] + [("benign", m, [prop]) for m in BEN if prop in m["props"]]
    budget = int(os.environ.get("VERIF_AUDIT_MAX", "80"))
    if len(jobs) > budget:
        random.Random(seed).shuffle(jobs)
        jobs = jobs[:budget]
    out = []
    with cf.ThreadPoolExecutor(max_workers=16) as ex:
        for r in ex.map(lambda j: selftest.run_one(*j), jobs):
            out.append(r)
    res = {"variants": len(out), "flagged": 0, "benign_silent": 0, "missed": [], "false_alarms": [], "stale": [], "analysis_errors": []}
    res["whole_tree_rewrites"] = run_rewrites(prop)
    for k in res["whole_tree_rewrites"]["not_silent"]:
        res["false_alarms"].append(f"rewrite-{k}")
    for r in out:
        v, d = selftest.judge(r)
        if v in ("CAUGHT", "CAUGHT-OTHER"):
            res["flagged"] += 1
        elif v == "SILENT":
            res["benign_silent"] += 1
        elif v == "MISSED":
            res["missed"].append(r["id"])
        elif v == "FALSE-ALARM":
            res["false_alarms"].append(r["id"])
        elif v == "STALE":
            res["stale"].append(r["id"])
        else:
            res["analysis_errors"].append(r["id"])
    return res


def run_rewrites(prop):
    """Behaviour-preserving rewrites of the WHOLE current tree (sa/rewrites.py); the check must stay silent on each."""
    import concurrent.futures as cf
    import shutil
    import subprocess
    import tempfile
    from . import rewrites

    def one(kind):
        tmp = tempfile.mkdtemp(prefix="sa-rw-")
        try:
            shutil.copytree(os.path.join(os.environ.get("VERIF_REPO", "/repo"), "src"), os.path.join(tmp, "src"))
            rewrites.transform(tmp, kind)
            q = subprocess.run([sys.executable, "-B", "-m", "sa.run", prop, "--repo", tmp, "--no-evidence"], cwd=VERIF, capture_output=True, text=True)
            return kind, q.returncode
        except Exception as e:  # a rewrite that cannot be produced is reported, not hidden
            return kind, f"{type(e).__name__}: {e}"
        finally:
            shutil.rmtree(tmp, ignore_errors=True)

    with cf.ThreadPoolExecutor(max_workers=9) as ex:
        rs = list(ex.map(one, rewrites.KINDS))
    return {"kinds": rewrites.KINDS, "silent": [k for k, rc in rs if rc == 0], "not_silent": [k for k, rc in rs if rc != 0]}


def write_evidence(prop, tier, seed, ctx, status, err, violations, known_hits, wall):
    obs = ctx.obs if ctx else []
    distinct = {(o.rule, o.key) for o in obs if o.nontrivial}
    samples = []
    seen_rules = set()
    for o in obs:  # one sample per rule first, then fill up
        if o.rule not in seen_rules:
            seen_rules.add(o.rule)
            samples.append(o.as_dict())
    for o in obs:
        if len(samples) >= 40:
            break
        d = o.as_dict()
        if d not in samples:
            samples.append(d)
    cov = {
        "explanation": (ctx.explanation if ctx else "") or "static analysis of /repo sources (ast); see DESIGN.md",
        "evaluations": max(len(obs), 0),
        "distinct_nontrivial": len(distinct),
        "rule": "one evaluation = one rule instance (obligation) decided on a construct of the current tree; distinct = "
                "distinct (rule id, construct key) pairs; non-trivial = matched a site and was decided by analysis, "
                "not by default",
        "obligations": len(obs),
        "discharged": sum(1 for o in obs if o.ok),
        "samples": samples,
        "functions_analysed": ctx.analysed_functions if ctx else [],
        "counts": ctx.counts if ctx else {},
        "notes": ctx.notes if ctx else [],
        "known_findings_matched": [{"rule": o.rule, "key": o.key, "what": k.get("what")} for o, k in known_hits],
        "status": {0: "pass", 1: "violation", 2: "analysis-error"}[status],
        "exhaustive": bool(ctx.extra.get("exhaustive", False)) if ctx else False,
    }
    if ctx:
        cov.update({k: v for k, v in ctx.extra.items() if k != "exhaustive"})
        r_ = ctx.repo
        cov["program_normal_form"] = {
            "rule": "applied to the parsed package before analysis (sa/inline.py); reports print the original file:line",
            "helpers_inlined": [f"{h} -> {c}" for h, c, _ in getattr(r_, "inlined", [])][:40],
            "object_loops_unrolled": [f"{c}:{l}" for c, l in getattr(r_, "unrolled", [])][:40],
            "list_loops_as_comprehensions": [f"{c}:{l}" for c, l in getattr(r_, "comprehended", [])][:40],
            "continue_guards_as_conditionals": [f"{c}:{l}" for c, l in getattr(r_, "unguarded", [])][:40],
            "conditional_values_as_statements": [f"{c}:{l}" for c, l in getattr(r_, "lowered", [])][:40],
            "dispatch_dicts_expanded": [f"{c}:{l}" for c, l in getattr(r_, "dispatched", [])][:40],
            "passes_that_stopped_early": list(getattr(r_, "normal_form_errors", [])),
        }
    if err:
        cov["analysis_error"] = err.splitlines()[0]
    ev = {
        "property_id": prop,
        "tier": tier,
        "seed": seed,
        "level": "other",
        "coverage": cov,
        "assumptions": (ctx.assumptions if ctx else []),
        "wall_s": round(wall, 3),
        "violations": len(violations),
    }
    d = os.path.join(VERIF, "evidence")
    os.makedirs(d, exist_ok=True)
    with open(os.path.join(d, f"{prop}.json"), "w") as f:
        json.dump(ev, f, indent=1, default=str)


if __name__ == "__main__":
    sys.exit(main())
