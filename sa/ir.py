"""E4 - def-use / provenance: turns a function body into a *term* per name by forward substitution of
reaching definitions (no execution, no solver). Terms are hashable nested tuples:

  ('const', v)                      ('param', name)                ('global', dotted)
  ('attr', obj, name)               ('sub', obj, idx)              ('slice', lo, hi, step)
  ('call', f, (args..), ((kw, v)..))  - f is a term; ('starred', t) / kw None = ** expansion
  ('bin', op, l, r)  ('un', op, x)  ('cmp', op, l, r)  ('bool', op, (vals..))  ('ifexp', c, a, b)
  ('fstr', (parts..))               - parts are ('const', str) or terms
  ('tuple', (..)) ('list', (..)) ('set', (..)) ('dict', ((k, v)..))   k None = ** expansion
  ('lambda', id)                    - see Builder.lambdas[id] = (ast.Lambda, env snapshot)
  ('closure', id)                   - nested def, Builder.closures[id] = (FuncInfo, env snapshot)
  ('phi', cond, a, b)               - value a if cond else b
  ('setitem', obj, key, val)        - obj after obj[key] = val
  ('setattr', obj, name, val)
  ('mut', obj, method, (args..), ((kw, v)..))   - obj after an in-place method (append, update, drop(inplace) ..)
  ('elem', iterable, loopid)        - generic element of an iteration
  ('loopin', name, loopid)          - value of `name` at the start of a generic iteration
  ('loopout', loopid, name, init, body)  - value after the loop
  ('comp', kind, elt, ((var, iter, (conds..))..), id)
  ('exc', id)                       - "the try body raised" pseudo-condition
  ('unknown', why)
"""
from __future__ import annotations

import ast
import itertools

from .model import AnalysisError, FuncInfo

_ids = itertools.count(1)

MUTATORS = {"append", "extend", "update", "insert", "remove", "clear", "sort", "shuffle", "setdefault", "add", "put"}
INPLACE_KW = {"drop", "fillna", "rename", "reset_index", "sort_values", "drop_duplicates", "dropna", "set_index"}

_ARITH_METHODS = {"sub": "-", "subtract": "-", "mul": "*", "multiply": "*", "div": "/", "truediv": "/", "divide": "/", "floordiv": "//",
                  "mod": "%", "pow": "**", "add": "+"}
BINOPS = {
    ast.Add: "+", ast.Sub: "-", ast.Mult: "*", ast.Div: "/", ast.FloorDiv: "//", ast.Mod: "%", ast.Pow: "**",
    ast.MatMult: "@", ast.BitAnd: "&", ast.BitOr: "|", ast.BitXor: "^", ast.LShift: "<<", ast.RShift: ">>",
}
UNOPS = {ast.USub: "-", ast.UAdd: "+", ast.Not: "not", ast.Invert: "~"}
CMPOPS = {
    ast.Eq: "==", ast.NotEq: "!=", ast.Lt: "<", ast.LtE: "<=", ast.Gt: ">", ast.GtE: ">=", ast.Is: "is",
    ast.IsNot: "is not", ast.In: "in", ast.NotIn: "not in",
}


class T(tuple):
    """Hash-consed term: cached hash, identity fast-path for equality (terms are DAGs with huge unfolded size)."""

    def __hash__(self):
        d = self.__dict__
        h = d.get("h")
        if h is None:
            h = d["h"] = tuple.__hash__(self)
        return h

    def __eq__(self, o):
        if self is o:
            return True
        if isinstance(o, T) and hash(self) != hash(o):
            return False
        return tuple.__eq__(self, o)

    def __ne__(self, o):
        return not self.__eq__(o)


_INTERN = {}


def I(term):  # noqa: E743
    """Canonical (interned) instance of a term."""
    if type(term) is T:
        return term
    t = T(term)
    if term and term[0] == "const":
        # 1 == True == 1.0 in Python: keep literals of different types apart
        return _INTERN.setdefault((type(term[1]).__name__, t), t)
    return _INTERN.setdefault(t, t)


class Summary:
    def __init__(self, func):
        self.func = func
        self.returns = []  # (pathcond, term, node)
        self.raises = []  # (pathcond, term, node)
        self.effects = []  # (pathcond, term, node)  expression-statement calls
        self.attr_writes = []  # (pathcond, attr, term, node) for self.<attr> = ..
        self.env = {}
        self.assigns = []  # (pathcond, target-name, term, node): every binding in order

    def ret(self):
        """Single merged return term: the decision tree over the path conditions of the returns. `if c: return a` + `return b`,
        `if c: return a else: return b` and `if not c: return b` + `return a` all give phi(c, a, b)."""
        if not self.returns:
            return ("const", None)
        if len(self.returns) == 1:
            return self.returns[0][1]

        def tree(rets, depth):
            if len(rets) == 1:
                return rets[0][1]
            leaf = [r for r in rets if len(r[0]) <= depth]
            if leaf:
                # a return whose path ends here although others go on: fall back to the chain form for this group
                t = rets[-1][1]
                for pc, term, _ in reversed(rets[:-1]):
                    cond = pc_term(pc[depth:])
                    t = ("phi", cond[2], t, term) if cond[0] == "un" and cond[1] == "not" else ("phi", cond, term, t)
                return t
            c = rets[0][0][depth][0]
            if any(r[0][depth][0] != c for r in rets):
                t = rets[-1][1]
                for pc, term, _ in reversed(rets[:-1]):
                    cond = pc_term(pc[depth:])
                    t = ("phi", cond[2], t, term) if cond[0] == "un" and cond[1] == "not" else ("phi", cond, term, t)
                return t
            yes = [r for r in rets if r[0][depth][1]]
            no = [r for r in rets if not r[0][depth][1]]
            if not yes:
                return tree(no, depth + 1)
            if not no:
                return tree(yes, depth + 1)
            ty, tn = tree(yes, depth + 1), tree(no, depth + 1)
            return ty if ty == tn else _merge_returns(c, ty, tn)
        return tree(list(self.returns), 0)


def pc_term(pc):
    if not pc:
        return ("const", True)
    parts = tuple(c if pol else ("un", "not", c) for c, pol in pc)
    return parts[0] if len(parts) == 1 else ("bool", "and", parts)


_LEN0 = ("const", 0)


def branch_polarity(cond):
    """(test in its positive form, branches swapped?) for the test of an if / conditional expression: `not c`, `a != b`, `a is not b`,
    `a not in b` branch like their positive forms with the branches exchanged; for a length, `len(x) > 0`, `len(x) >= 1`, `len(x) != 0`
    are all 'not (len(x) == 0)'."""
    swap = False
    for _ in range(8):
        if cond[0] == "un" and cond[1] == "not":
            cond, swap = cond[2], not swap
            continue
        if cond[0] == "cmp":
            op, l, r = cond[1], cond[2], cond[3]
            if op in ("!=", "is not", "not in"):
                cond, swap = ("cmp", {"!=": "==", "is not": "is", "not in": "in"}[op], l, r), not swap
                continue
            if l[0] == "call" and l[1] == ("global", "len") and r[0] == "const" and isinstance(r[1], int):
                if (op, r[1]) in ((">", 0), (">=", 1)):
                    cond, swap = ("cmp", "==", l, _LEN0), not swap
                    continue
                if (op, r[1]) in (("<", 1), ("<=", 0)):
                    cond = ("cmp", "==", l, _LEN0)
                    continue
                # a length is an integer: every ordering test on it is `len(x) > k` or its exact complement
                if op == ">=" and r[1] >= 2:
                    cond = ("cmp", ">", l, ("const", r[1] - 1))
                    continue
                if op == "<=" and r[1] >= 1:
                    cond, swap = ("cmp", ">", l, r), not swap
                    continue
                if op == "<" and r[1] >= 2:
                    cond, swap = ("cmp", ">", l, ("const", r[1] - 1)), not swap
                    continue
        break
    return cond, swap


def nonempty_entry(entry):
    """x when the path-condition entry says len(x) != 0 (canonical form: (len(x) == 0, False)), else None"""
    c, pol = entry
    if c[0] == "cmp" and c[2][0] == "call" and c[2][1] == ("global", "len") and len(c[2][2]) == 1 and c[3] == _LEN0:
        if (c[1] == "==" and not pol) or (c[1] in ("!=", ">") and pol):
            return c[2][2][0]
        return None
    # `if s:` on a collection-valued term (a set expression, a dict / list built here, the result of a call) is the same test; what the
    # collection is has to be judged by the rule that asks
    if pol and c[0] in ("bin", "dict", "list", "set", "comp", "loopout", "call") and not (c[0] == "bin" and c[1] in ("and", "or")):
        return c
    return None


_MASK_CALLS = {"isnan", "isclose", "isin", "isna", "isnull", "notna", "notnull", "isfinite", "isinf", "logical_and", "logical_or", "logical_not"}


def _is_mask(k):
    """a subscript key that is an element-wise truth vector (not a column name, a position or a slice)"""
    if k[0] == "cmp":
        return k[1] not in ("in", "not in", "is", "is not")
    if k[0] == "un" and k[1] == "~":
        return True
    if k[0] == "bin" and k[1] in ("&", "|", "^"):
        return _is_mask(k[2]) or _is_mask(k[3])
    if k[0] == "call":
        f = k[1]
        name = f[2] if f[0] == "attr" else (f[1].split(".")[-1] if f[0] == "global" else None)
        if f[0] == "attr" and name in ("flatten", "ravel", "squeeze", "to_numpy", "copy") and not k[2]:
            return _is_mask(f[1])  # a reshaped mask is a mask
        if f[0] == "attr" and name in ("all", "any") and dict(k[3]).get("axis") == ("const", 1):
            return _is_mask(f[1])  # row-wise all / any of a truth table: one truth value per row
        return name in _MASK_CALLS
    if k[0] == "attr" and k[2] == "values":
        return _is_mask(k[1])
    return False


def _unmask(v, mask):
    """x[mask] inside the value assigned under the same mask reads as x (element-wise at full length)"""
    hits = {x: x[1] for x in walk(v) if x[0] == "sub" and x[2] == mask}
    return subst(v, hits) if hits else v


def _synonym(ft, args, kws):
    """pandas / numpy spellings of one operation -> one term (None: not a synonym this table knows)"""
    kw = dict(kws)
    name = ft[2] if ft[0] == "attr" else (ft[1] if ft[0] == "global" else None)
    if ft == ("attr", ("global", "dict"), "fromkeys") and len(args) == 2 and not kws and args[0][0] in ("list", "tuple"):
        return ("dict", tuple((k_, args[1]) for k_ in args[0][1]))  # dict.fromkeys([a, b], v) is {a: v, b: v}
    if ft[0] == "attr":
        x = ft[1]
        if name == "ravel" and not args and not kws:
            return ("call", ("attr", x, "flatten"), (), ())
        if name == "round" and not (x[0] == "global"):
            d = args[0] if args else kw.get("decimals", ("const", 0))
            if len(args) <= 1 and set(kw) <= {"decimals"}:
                return ("call", ("attr", x, "round"), (), (("decimals", d),))
        if name == "searchsorted" and x[0] != "global" and len(args) >= 1:
            return ("call", ("global", "numpy.searchsorted"), (x,) + tuple(args), kws)  # the ndarray method is the function
        if name in ("isna", "notna") and not args and not kws:
            return ("call", ("attr", x, {"isna": "isnull", "notna": "notnull"}[name]), (), ())
        if name == "clip" and x[0] != "global" and len(args) <= 2 and set(kw) <= {"min", "max", "lower", "upper"}:
            lo = args[0] if args else kw.get("min", kw.get("lower", ("const", None)))
            hi = args[1] if len(args) > 1 else kw.get("max", kw.get("upper", ("const", None)))
            return ("call", ("global", "numpy.clip"), (x, lo, hi), ())
        if name == "agg" and args == (("const", "sum"),) and not kws and x[0] == "call" and x[1][0] == "attr" and x[1][2] == "groupby":
            return ("call", ("attr", x, "sum"), (), ())
        if name == "sum" and not args and not kws and x[0] == "sub" and x[2][0] == "list" and x[2][1] and x[1][0] == "call" and x[1][1][0] == "attr" and x[1][1][2] == "groupby":
            # groupby(k)[[c, ..]].sum() is the named aggregation groupby(k).agg(c=(c, "sum"), ..): one spelling
            cols = x[2][1]
            pairs = tuple((c_, ("tuple", (c_, ("const", "sum")))) for c_ in cols)
            if all(c_[0] == "const" and isinstance(c_[1], str) and c_[1].isidentifier() for c_ in cols):
                return ("call", ("attr", x[1], "agg"), (), tuple(sorted(((c_[1], v_) for c_, v_ in pairs), key=lambda kv: kv[0])))
            return ("call", ("attr", x[1], "agg"), (), ((None, ("dict", pairs)),))
        if name == "merge" and "left_on" in kw and kw.get("left_on") == kw.get("right_on") and "on" not in kw:
            k2 = tuple(sorted([(a_, b_) for a_, b_ in kws if a_ not in ("left_on", "right_on")] + [("on", kw["left_on"])], key=lambda kv: kv[0]))
            return ("call", ft, args, k2)
        if name == "drop" and kw.get("columns", ("x",))[0] == "const" and isinstance(kw["columns"][1], str):
            k2 = tuple((a_, ("list", (b_,)) if a_ == "columns" else b_) for a_, b_ in kws)
            return ("call", ft, args, k2)
        return None
    if ft[0] == "global":
        if name in ("numpy.round", "numpy.around", "numpy.round_") and args and len(args) <= 2 and set(kw) <= {"decimals"}:
            d = args[1] if len(args) > 1 else kw.get("decimals", ("const", 0))
            return ("call", ("attr", args[0], "round"), (), (("decimals", d),))
        if name in ("pandas.isnull", "pandas.isna", "pandas.notnull", "pandas.notna") and len(args) == 1 and not kws:
            return ("call", ("attr", args[0], "isnull" if name.endswith(("isnull", "isna")) else "notnull"), (), ())
        if name == "numpy.clip" and len(args) + len(kw) <= 3 and set(kw) <= {"a_min", "a_max"} and args:
            lo = args[1] if len(args) > 1 else kw.get("a_min", ("const", None))
            hi = args[2] if len(args) > 2 else kw.get("a_max", ("const", None))
            return None if (len(args) == 3 and not kws) else ("call", ft, (args[0], lo, hi), ())
        if name == "pandas.concat" and (kw.get("axis") == ("const", 0) or kw.get("ignore_index") == ("const", False)):
            return ("call", ft, args, tuple(kv for kv in kws if not (kv[0] == "axis" and kv[1] == ("const", 0)) and not (kv[0] == "ignore_index" and kv[1] == ("const", False))))
        if name == "pandas.concat" and kw.get("ignore_index") == ("const", True) and kw.get("axis", ("const", 0)) == ("const", 0):
            inner = ("call", ft, args, tuple(kv for kv in kws if kv[0] not in ("ignore_index", "axis")))
            return ("call", ("attr", inner, "reset_index"), (), (("drop", ("const", True)),))
        if name == "numpy.arange" and len(args) == 2 and not kws and args[0] == ("const", 0):
            return ("call", ft, (args[1],), ())  # arange(0, n) is arange(n)
        if name == "len" and len(args) == 1 and not kws and args[0][0] == "call" and args[0][1] == ("global", "numpy.arange") and len(args[0][2]) == 1 \
                and not args[0][3] and args[0][2][0][0] == "const" and isinstance(args[0][2][0][1], int) and args[0][2][0][1] >= 0:
            return args[0][2][0]  # len(arange(n)) is n
        if name == "numpy.full" and len(args) == 2 and not kws and args[1] == ("global", "numpy.nan"):
            return ("bin", "*", ("global", "numpy.nan"), ("call", ("global", "numpy.ones"), (args[0],), ()))  # full(n, nan) is nan * ones(n)
        if name == "numpy.reshape" and len(args) == 2 and not kws and args[1][0] == "tuple":
            return ("call", ("attr", args[0], "reshape"), args[1][1], ())
    return None


def column_ref(t):
    """frame.name / frame['name'] -> (frame, 'name'): attribute-style and subscript-style column reads are one thing; else None"""
    if t[0] == "attr" and isinstance(t[2], str):
        return t[1], t[2]
    if t[0] == "sub" and t[2][0] == "const" and isinstance(t[2][1], str):
        return t[1], t[2][1]
    return None


def _merge_returns(c, a, b):
    """phi(c, T(x1, y1), T(x2, y2)) for one constructor T (a namedtuple / class of the package, a tuple display) is T(phi(c, x1, x2),
    phi(c, y1, y2)): a function that builds its result in both branches returns the same thing as one that decides the fields first"""
    if a[0] == "tuple" and b[0] == "tuple" and len(a[1]) == len(b[1]):
        return ("tuple", tuple(x if x == y else ("phi", c, x, y) for x, y in zip(a[1], b[1])))
    if (a[0] == "call" and b[0] == "call" and a[1] == b[1] and a[1][0] == "global" and ":" in a[1][1] and len(a[2]) == len(b[2])
            and [k for k, _ in a[3] if k != "#new"] == [k for k, _ in b[3] if k != "#new"]):
        args = tuple(x if x == y else ("phi", c, x, y) for x, y in zip(a[2], b[2]))
        ka, kb = [kv for kv in a[3] if kv[0] != "#new"], [kv for kv in b[3] if kv[0] != "#new"]
        kws = tuple((k, x if x == y else ("phi", c, x, y)) for (k, x), (_, y) in zip(ka, kb)) + tuple(kv for kv in a[3] if kv[0] == "#new")
        return ("call", a[1], args, kws)
    return ("phi", c, a, b)


def own_conditions(summary, pc):
    """the entries of a path condition that are NOT just 'an earlier guard clause did not fire' (the complement of the last condition of
    some return / raise with the same prefix): what genuinely restricts the statement"""
    exits = {(x[0][:-1], x[0][-1][0], x[0][-1][1]) for x in list(summary.returns) + list(summary.raises) if x[0]}
    return [(c, pol) for i, (c, pol) in enumerate(pc) if (pc[:i], c, not pol) not in exits]


class Builder:
    """Builds terms for one repo; keeps side tables (locations, lambdas, closures)."""

    def __init__(self, repo, inline=None, max_depth=3):
        self.repo = repo
        self.loc = {}  # term -> (FuncInfo, node) of first construction
        self.lambdas = {}
        self.closures = {}
        self.inline = inline  # callable(FuncInfo caller, ast.Call, callee FuncInfo) -> bool
        self.max_depth = max_depth
        self.resolver = None  # set to callgraph.Resolver for inlining
        self._sites = {}

    def site_id(self, node):
        k = id(node)
        if k not in self._sites:
            self._sites[k] = f"{getattr(node, 'lineno', 0)}:{getattr(node, 'col_offset', 0)}#{len(self._sites)}"
        return self._sites[k]

    # ---------------------------------------------------------------------------------------
    def summarize(self, func: FuncInfo, bindings=None, env=None, depth=0, self_cls=None):
        ev = _Eval(self, func, bindings or {}, env, depth, self_cls)
        return ev.run()

    _PANDAS_ATTRS = {"values", "index", "columns", "loc", "iloc", "shape", "T", "empty", "size", "dtype", "dtypes", "str", "dt", "at", "iat", "name",
                     "lower", "upper", "conformalization", "data", "model", "seed", "rng"}

    def column_vocab(self):
        """names used as constant column subscripts somewhere in the package (frame["name"]) and never as an attribute of self or as a
        method: an attribute read of such a name on a data term is a column read"""
        if getattr(self, "_colvocab", None) is None:
            subs, attrs_of_self, methods = set(), set(), set()
            for m in self.repo.modules.values():
                for n in ast.walk(m.tree):
                    if isinstance(n, ast.Subscript) and isinstance(n.slice, ast.Constant) and isinstance(n.slice.value, str) and n.slice.value.isidentifier():
                        subs.add(n.slice.value)
                    elif isinstance(n, ast.Attribute) and isinstance(n.value, ast.Name) and n.value.id == "self":
                        attrs_of_self.add(n.attr)
                    elif isinstance(n, ast.Call) and isinstance(n.func, ast.Attribute):
                        methods.add(n.func.attr)
                    elif isinstance(n, (ast.FunctionDef, ast.AsyncFunctionDef)):
                        methods.add(n.name)
                    elif isinstance(n, ast.keyword) and n.arg == "columns" and isinstance(n.value, (ast.List, ast.Tuple)):
                        subs |= {x.value for x in n.value.elts if isinstance(x, ast.Constant) and isinstance(x.value, str) and x.value.isidentifier()}
                    elif isinstance(n, ast.Dict):
                        pass
            import os
            fixed = set()
            try:
                fixed = {l.strip() for l in open(os.path.join(os.path.dirname(os.path.abspath(__file__)), "known_columns.txt")) if l.strip()}
            except OSError:
                pass
            # the fixed list: every name the reference tree reads attribute-style as a column (so that the canonical form of a known
            # column does not depend on how the tree at hand happens to spell it); plus the names this tree subscripts with
            self._colvocab = fixed | (subs - attrs_of_self - methods - self._PANDAS_ATTRS)
        return self._colvocab

    def lambda_apply(self, lam_term, args):
        """Term of a lambda body with its parameters bound to `args` (list of terms)."""
        node, env, func, self_cls = self.lambdas[lam_term[1]]
        ev = _Eval(self, func, {}, dict(env), 0, self_cls)
        names = [a.arg for a in node.args.args]
        for n, t in zip(names, args):
            ev.env[n] = t
        return ev.expr(node.body)

    def apply_callable(self, f, args):
        """the value of a callable term (lambda, nested def) applied to argument terms - what groupby(..).apply(f) computes per group"""
        if f[0] == "lambda":
            return self.lambda_apply(f, args)
        if f[0] == "closure":
            return self.closure_summary(f, args).ret()
        return None

    def closure_summary(self, clo_term, args):
        fi, env, self_cls = self.closures[clo_term[1]]
        ev = _Eval(self, fi, dict(zip(fi.params, args)), dict(env), 0, self_cls)
        return ev.run()


class _Eval:
    def __init__(self, b, func, bindings, env, depth, self_cls):
        self.b = b
        self.func = func
        self.module = func.module
        self.depth = depth
        self.self_cls = self_cls or func.cls or (func.parent.cls if func.parent else None)
        self.env = dict(env) if env else {}
        self.attrs = {}  # self attribute store: name -> term
        self.pc = ()
        self.sum = Summary(func)
        a = func.node.args
        given = set(self.env) if env else set()
        for p in a.posonlyargs + a.args + a.kwonlyargs:
            if p.arg in bindings or p.arg not in given:
                self.env[p.arg] = bindings.get(p.arg, ("param", p.arg))
        if a.vararg and (a.vararg.arg in bindings or a.vararg.arg not in given):
            self.env[a.vararg.arg] = bindings.get(a.vararg.arg, ("param", "*" + a.vararg.arg))
        if a.kwarg and (a.kwarg.arg in bindings or a.kwarg.arg not in given):
            self.env[a.kwarg.arg] = bindings.get(a.kwarg.arg, ("param", "**" + a.kwarg.arg))
        # free variables of a nested def that are parameters of an enclosing function (e.g. `self`)
        par = func.parent
        while par is not None:
            pa = par.node.args
            for p in pa.posonlyargs + pa.args + pa.kwonlyargs:
                self.env.setdefault(p.arg, ("param", p.arg))
            par = par.parent
        # ... and locals of the enclosing function that are bound exactly once, at the top level of its body, to a closed expression
        # (nothing but module-level names and constants: `grid = np.arange(101)`): the nested function sees that value
        if func.parent is not None and env is None:
            self._bind_closed_outer_locals(func)
        self.dead = False

    def _bind_closed_outer_locals(self, func):
        par = func.parent
        own = {n.id for n in ast.walk(func.node) if isinstance(n, ast.Name) and isinstance(n.ctx, ast.Store)}
        used = {n.id for n in ast.walk(func.node) if isinstance(n, ast.Name) and isinstance(n.ctx, ast.Load)} - own - set(self.env)
        if not used:
            return
        stores = {}
        for n in ast.walk(par.node):
            if isinstance(n, ast.Name) and isinstance(n.ctx, (ast.Store, ast.Del)):
                stores[n.id] = stores.get(n.id, 0) + 1
            elif isinstance(n, (ast.FunctionDef, ast.AsyncFunctionDef, ast.ClassDef)) and n is not par.node:
                stores[n.name] = stores.get(n.name, 0) + 1
        pa = par.node.args
        outer_locals = set(stores) | {p.arg for p in pa.posonlyargs + pa.args + pa.kwonlyargs}
        for st in par.node.body:
            if not (isinstance(st, ast.Assign) and len(st.targets) == 1 and isinstance(st.targets[0], ast.Name)):
                continue
            name = st.targets[0].id
            if name not in used or stores.get(name) != 1:
                continue
            if any(isinstance(n, ast.Name) and n.id in outer_locals for n in ast.walk(st.value)):
                continue
            if any(isinstance(n, (ast.Lambda, ast.ListComp, ast.SetComp, ast.DictComp, ast.GeneratorExp, ast.Await, ast.Yield, ast.YieldFrom, ast.NamedExpr)) for n in ast.walk(st.value)):
                continue
            try:
                self.env[name] = _Eval(self.b, par, {}, None, 0, None).expr(st.value)
            except AnalysisError:
                pass

    # ---------------------------------------------------------------------------------------
    def run(self):
        self.block(self.func.node.body)
        self.sum.env = self.env
        self.sum.attrs = self.attrs
        return self.sum

    def mk(self, term, node):
        term = I(term)
        if term not in self.b.loc:
            self.b.loc[term] = (self.func, node)
        return term

    def block(self, stmts):
        for st in stmts:
            if self.dead:
                return
            self.stmt(st)

    # ---------------------------------------------------------------------------------------
    def stmt(self, st):
        m = getattr(self, "s_" + type(st).__name__, None)
        if m is None:
            raise AnalysisError(f"{self.func.where(st)}: statement kind {type(st).__name__} not supported by the IR builder")
        m(st)

    def s_Pass(self, st):
        pass

    s_Import = s_ImportFrom = s_Global = s_Nonlocal = s_Pass

    def s_Expr(self, st):
        if isinstance(st.value, ast.Constant):
            return
        t = self.expr(st.value)
        # in-place mutation through a method call on a name / self attribute
        if isinstance(st.value, ast.Call) and isinstance(st.value.func, ast.Attribute):
            meth = st.value.func.attr
            recv = st.value.func.value
            inplace = any(k.arg == "inplace" and isinstance(k.value, ast.Constant) and k.value.value is True
                          for k in st.value.keywords)
            if meth in MUTATORS or (meth in INPLACE_KW and inplace):
                args = t[2]
                kws = t[3]
                if meth == "shuffle" and args:
                    # rng.shuffle(x) mutates its argument
                    tgt = st.value.args[0]
                    old = self.expr(tgt)
                    self.store(tgt, self.mk(("mut", old, "shuffle", (self.expr(recv),), ()), st), st)
                elif meth in INPLACE_KW and meth not in MUTATORS:
                    # frame.m(.., inplace=True) re-binds the frame to frame.m(..): one canonical spelling (the returned copy)
                    old = self.expr(recv)
                    self.store(recv, self.mk(("call", ("attr", old, meth), args, tuple(kv for kv in kws if kv[0] != "inplace")), st), st, soft=True)
                else:
                    old = self.expr(recv)
                    self.store(recv, self.mk(("mut", old, meth, args, kws), st), st, soft=True)
        self.sum.effects.append((self.pc, t, st))

    def s_Assert(self, st):
        self.sum.effects.append((self.pc, ("call", ("global", "assert"), (self.expr(st.test),), ()), st))

    def s_Delete(self, st):
        pass

    def s_Return(self, st):
        t = self.expr(st.value) if st.value is not None else ("const", None)
        self.sum.returns.append((self.pc, t, st))
        self.dead = True

    def s_Raise(self, st):
        t = self.expr(st.exc) if st.exc is not None else ("const", "reraise")
        self.sum.raises.append((self.pc, t, st))
        self.dead = True

    def s_Assign(self, st):
        v = self.expr(st.value)
        for tgt in st.targets:
            self.store(tgt, v, st)

    def s_AnnAssign(self, st):
        if st.value is not None:
            self.store(st.target, self.expr(st.value), st)

    def s_AugAssign(self, st):
        old = self.expr(st.target)
        v = self.mk(("bin", BINOPS[type(st.op)], old, self.expr(st.value)), st)
        self.store(st.target, v, st, aug=True)

    def s_FunctionDef(self, st):
        fi = getattr(self.func, "nested", {}).get(st.name)
        if fi is None:
            fi = FuncInfo(self.module, None, st, parent=self.func)
        cid = next(_ids)
        self.b.closures[cid] = (fi, self.env, self.self_cls)
        self.env[st.name] = ("closure", cid)

    def s_ClassDef(self, st):
        self.env[st.name] = ("unknown", "local class")

    def s_With(self, st):
        for it in st.items:
            v = self.expr(it.context_expr)
            if it.optional_vars is not None:
                self.store(it.optional_vars, self.mk(("call", ("attr", v, "__enter__"), (), ()), st), st)
        self.block(st.body)

    def s_If(self, st):
        cond = self.expr(st.test)
        body, orelse = st.body, st.orelse
        # canonical polarity: `if not c: A else: B` is the same branching as `if c: B else: A`
        cond, swap = branch_polarity(cond)
        if swap:
            body, orelse = orelse, body
        if cond[0] == "cmp" and cond[1] == "==" and cond[2][0] == "const" and cond[3][0] == "const" and isinstance(cond[2][1], str) and isinstance(cond[3][1], str):
            # a test between two known texts (a parameter bound to a constant by the rule that asks): only the branch taken exists
            self.block(body if cond[2][1] == cond[3][1] else orelse)
            return
        a = self.fork()
        a.pc = self.pc + ((cond, True),)
        a.block(body)
        b = self.fork()
        b.pc = self.pc + ((cond, False),)
        b.block(orelse)
        self.join(cond, a, b)

    def s_Try(self, st):
        before_env = dict(self.env)
        before_attrs = dict(self.attrs)
        body = self.fork()
        body.block(st.body)
        if not body.dead:
            body.block(st.orelse)
        exc = ("exc", next(_ids))
        merged = body
        for h in st.handlers:
            hb = self.fork()
            hb.env = dict(before_env)
            hb.attrs = dict(before_attrs)
            # names assigned in the try body may or may not be bound in the handler
            for k, v in body.env.items():
                if before_env.get(k) != v:
                    hb.env[k] = ("phi", ("unknown", "raised-before-binding"), before_env.get(k, ("unknown", "unbound")), v)
            hb.pc = self.pc + ((exc, True),)
            if h.name:
                hb.env[h.name] = ("param", "exc:" + (ast.unparse(h.type) if h.type else "BaseException"))
            hb.block(h.body)
            tmp = self.fork()
            tmp.adopt(merged)
            self.join(exc, hb, tmp)
            merged = self.fork()
            merged.adopt(self)
            merged.dead = self.dead
        self.adopt(merged)
        self.dead = merged.dead
        if st.finalbody:
            dead = self.dead
            self.dead = False
            self.block(st.finalbody)
            self.dead = self.dead or dead

    def _loop(self, st, var_target, iter_term):
        lid = next(_ids)
        assigned = _assigned_names(st.body)
        assigned_attrs = _assigned_self_attrs(st.body)
        body = self.fork()
        body.pc = self.pc + ((("loop", lid, iter_term), True),)
        init = {n: self.env.get(n) for n in assigned}
        init_attrs = {n: self.attrs.get(n, ("attr", ("param", "self"), n)) for n in assigned_attrs}
        for n in assigned:
            if n in self.env:
                body.env[n] = I(("loopin", n, lid, self.env[n]))
        for n in assigned_attrs:
            body.attrs[n] = I(("loopin", "self." + n, lid, init_attrs[n]))
        if var_target is not None:
            body.store(var_target, I(("elem", iter_term, lid)), st)
        body.block(st.body)
        for n in assigned:
            if n in body.env and not (body.env[n][0] == "loopin" and body.env[n][2] == lid and body.env[n][1] == n):
                self.env[n] = I(("loopout", lid, n, init.get(n) or ("unknown", "unbound"), body.env[n], iter_term))
        for n in assigned_attrs:
            if body.attrs.get(n) is not None:
                self.attrs[n] = I(("loopout", lid, "self." + n, init_attrs[n], body.attrs[n], iter_term))
        if st.orelse:
            self.block(st.orelse)

    def s_For(self, st):
        self._loop(st, st.target, self.expr(st.iter))

    def s_While(self, st):
        self._loop(st, None, ("call", ("global", "while"), (self.expr(st.test),), ()))

    def s_Break(self, st):
        self.dead = True

    s_Continue = s_Break

    # ---------------------------------------------------------------------------------------
    def _namedtuple_index(self, v, i):
        """NT(a, b, c)[i] / `x, y, z = NT(a, b, c)` -> the i-th field (same as the attribute read)"""
        if not (v[0] in ("call", "phi") and isinstance(i, int) and i >= 0):
            return None
        probe = v
        while probe[0] == "phi":
            probe = probe[2]
        if not (probe[0] == "call" and probe[1][0] == "global" and ":" in probe[1][1]):
            return None
        mod, name = probe[1][1].split(":", 1)
        m = self.b.repo.modules.get(mod)
        node = m.constants.get(name) if m else None
        if not (isinstance(node, ast.Call) and isinstance(node.func, ast.Name) and node.func.id == "namedtuple" and len(node.args) >= 2
                and isinstance(node.args[1], (ast.List, ast.Tuple))):
            return None
        fields = [x.value for x in node.args[1].elts if isinstance(x, ast.Constant)]
        return self._namedtuple_field(v, fields[i]) if i < len(fields) else None

    def _namedtuple_field(self, v, attr):
        """NT(a, b, c).field -> the argument, when NT is a module-level namedtuple with literal field names"""
        if v[0] == "phi":
            a, b_ = self._namedtuple_field(v[2], attr), self._namedtuple_field(v[3], attr)
            if a is not None and b_ is not None:
                return a if a == b_ else I(("phi", v[1], a, b_))
            return None
        if not (v[0] == "call" and v[1][0] == "global" and ":" in v[1][1]):
            return None
        mod, name = v[1][1].split(":", 1)
        m = self.b.repo.modules.get(mod)
        node = m.constants.get(name) if m else None
        if not (isinstance(node, ast.Call) and isinstance(node.func, ast.Name) and node.func.id == "namedtuple" and len(node.args) >= 2
                and isinstance(node.args[1], (ast.List, ast.Tuple))):
            return None
        fields = [x.value for x in node.args[1].elts if isinstance(x, ast.Constant)]
        if attr not in fields:
            return None
        i = fields.index(attr)
        if i < len(v[2]):
            return v[2][i]
        for k, val in v[3]:
            if k == attr:
                return val
        return ("const", None)

    def _constructor_like(self, fnode, ft):
        name = _ctor_name(ft)
        if not name or not name[:1].isupper() or name.isupper():
            return False
        if ft[0] == "global" and ":" in ft[1]:
            r = self.b.repo.resolve_dotted(ft[1].replace(":", "."))
            return r is not None and r[0] == "class" and not r[1].name.endswith(("Exception", "Error")) and \
                not any(b_ == "Exception" for b_ in r[1].external_bases)
        return name in ("QuantileRegressionSolver", "OLSRegressionSolver", "BytesIO", "StringIO", "Queue", "DataFrame", "Series",
                        "TransferManager")

    def fork(self):
        e = _Eval.__new__(_Eval)
        e.b, e.func, e.module, e.depth, e.self_cls = self.b, self.func, self.module, self.depth, self.self_cls
        e.env = dict(self.env)
        e.attrs = dict(self.attrs)
        e.pc = self.pc
        e.sum = self.sum  # shared collectors
        e.dead = False
        return e

    def adopt(self, other):
        self.env = dict(other.env)
        self.attrs = dict(other.attrs)

    def join(self, cond, a, b):
        if a.dead and b.dead:
            self.dead = True
            return
        if a.dead:
            # `if c: return ..` followed by REST is `if c: return .. else: REST`: REST runs under (not c) in either spelling
            self.adopt(b)
            if cond[0] != "exc":
                self.pc = self.pc + ((cond, False),)
            return
        if b.dead:
            self.adopt(a)
            if cond[0] != "exc":
                self.pc = self.pc + ((cond, True),)
            return
        env = {}
        for k in set(a.env) | set(b.env):
            va, vb = a.env.get(k), b.env.get(k)
            if va == vb:
                env[k] = va
            else:
                dg = _dict_get(cond, va, vb) if va is not None and vb is not None else None
                env[k] = I(dg) if dg is not None else I(("phi", cond, va if va is not None else ("unknown", "unbound"),
                                                         vb if vb is not None else ("unknown", "unbound")))
        attrs = {}
        for k in set(a.attrs) | set(b.attrs):
            va = a.attrs.get(k, ("attr", ("param", "self"), k))
            vb = b.attrs.get(k, ("attr", ("param", "self"), k))
            attrs[k] = va if va == vb else I(("phi", cond, va, vb))
        self.env, self.attrs = env, attrs

    # ---------------------------------------------------------------------------------------
    def store(self, tgt, v, st, aug=False, soft=False):
        if isinstance(tgt, ast.Name):
            self.env[tgt.id] = v
            self.sum.assigns.append((self.pc, tgt.id, v, st))
        elif isinstance(tgt, (ast.Tuple, ast.List)):
            if tgt.elts and isinstance(tgt.elts[-1], ast.Starred) and not any(isinstance(e, ast.Starred) for e in tgt.elts[:-1]):
                # a, b, *rest = x: the leading names are x[0], x[1] (whatever the rest is)
                for i, e in enumerate(tgt.elts[:-1]):
                    nt = self._namedtuple_index(v, i)
                    self.store(e, I(nt if nt is not None else index(v, ("const", i))), st)
                self.store(tgt.elts[-1].value, ("unknown", "starred-rest"), st)
                return
            if v[0] in ("tuple", "list") and len(v[1]) == len(tgt.elts) and not any(
                isinstance(e, ast.Starred) for e in tgt.elts
            ):
                for e, x in zip(tgt.elts, v[1]):
                    self.store(e, x, st)
            else:
                for i, e in enumerate(tgt.elts):
                    nt = self._namedtuple_index(v, i)
                    self.store(e, I(nt if nt is not None else index(v, ("const", i))), st)
        elif isinstance(tgt, ast.Attribute):
            if isinstance(tgt.value, ast.Name) and tgt.value.id == "self" and self.env.get("self") == ("param", "self"):
                self.attrs[tgt.attr] = v
                self.sum.attr_writes.append((self.pc, tgt.attr, v, st))
                self.sum.assigns.append((self.pc, "self." + tgt.attr, v, st))
            else:
                old = self.expr(tgt.value)
                self.store(tgt.value, self.mk(("setattr", old, tgt.attr, v), st), st, soft=True)
        elif isinstance(tgt, ast.Subscript):
            old = self.expr(tgt.value)
            key = self.expr(tgt.slice)
            if _is_mask(key) and not aug:
                # arr[mask] = v is numpy.where(mask, v, arr) (a compressed right-hand side x[mask] read at full length): one spelling
                v_full = subst(v, {("sub", old, key): old}) if any(x == ("sub", old, key) for x in walk(v)) else v
                v_full = _unmask(v_full, key)
                self.store(tgt.value, self.mk(("call", ("global", "numpy.where"), (key, v_full, old), ()), st), st, soft=True)
                return
            self.store(tgt.value, self.mk(("setitem", old, key, v), st), st, soft=True)
        elif isinstance(tgt, ast.Starred):
            self.store(tgt.value, ("unknown", "starred"), st)
        elif soft:
            return  # mutation of a temporary (e.g. f(x).attr = ..): nothing to rebind
        else:
            raise AnalysisError(f"{self.func.where(st)}: assignment target {ast.unparse(tgt)} not supported")

    # ---------------------------------------------------------------------------------------
    def expr(self, e):
        m = getattr(self, "e_" + type(e).__name__, None)
        if m is None:
            raise AnalysisError(f"{self.func.where(e)}: expression kind {type(e).__name__} not supported by the IR builder")
        return self.mk(m(e), e)

    def e_Constant(self, e):
        return ("const", e.value)

    def e_Name(self, e):
        if e.id in self.env:
            return self.env[e.id]
        r = self.b.repo.resolve_name(self.module, e.id)
        if r is not None:
            if r[0] == "class":
                return ("global", r[1].fq)
            if r[0] == "func":
                return ("global", r[1].fq)
            if r[0] == "module":
                return ("global", r[1].name)
            if r[0] == "const":
                lit = _new_constant_value(r[1], r[2])
                if lit is not None:
                    return lit
                return ("global", f"{r[1].name}:{r[2]}")
            if r[0] == "ext":
                return ("global", r[1])
        return ("global", e.id)

    def e_Attribute(self, e):
        if isinstance(e.value, ast.Name) and e.value.id == "self" and self.env.get("self") == ("param", "self"):
            if e.attr in self.attrs:
                return self.attrs[e.attr]
            return ("attr", ("param", "self"), e.attr)
        v = self.expr(e.value)
        if e.attr == "empty" and not (isinstance(getattr(e, "_parent", None), ast.Call) and e._parent.func is e) and v[0] in ("sub", "call", "param", "phi", "loopout", "setitem"):
            return ("cmp", "==", ("call", ("global", "len"), (v,), ()), ("const", 0))  # frame.empty is len(frame) == 0
        nt = self._namedtuple_field(v, e.attr)
        if nt is not None:
            return nt
        if e.attr in self.b.column_vocab() and v[0] not in ("global", "const") and v != ("param", "self") \
                and not (isinstance(getattr(e, "_parent", None), ast.Call) and e._parent.func is e) and isinstance(e.ctx, ast.Load):
            return ("sub", v, ("const", e.attr))  # frame.name and frame["name"] read the same column: one spelling (the subscript)
        if v[0] == "global":
            r = self.b.repo.resolve_dotted(v[1].replace(":", ".") + "." + e.attr) if ":" not in v[1] else None
            if r is not None and r[0] in ("class", "func"):
                return ("global", r[1].fq)
            if r is not None and r[0] == "module":
                return ("global", r[1].name)
            if r is not None and r[0] == "const":
                return ("global", f"{r[1].name}:{r[2]}")
            if ":" in v[1]:
                return ("attr", v, e.attr)  # attribute of a repo constant / class / function object
            return ("global", v[1] + "." + e.attr)
        return ("attr", v, e.attr)

    def e_Subscript(self, e):
        v, k = self.expr(e.value), self.expr(e.slice)
        if k == ("const", 0) and v[0] == "attr" and v[2] == "shape":
            return nrows(v[1])  # x.shape[0] and len(x) are the same number: one canonical spelling
        if k[0] == "slice" and v[0] == "attr" and v[2] == "iloc":
            return ("sub", v[1], k)  # frame.iloc[a:b] and frame[a:b] are the same positional row slice
        if v[0] == "attr" and v[2] == "loc" and isinstance(e.ctx, ast.Load):
            ALL = ("slice", ("const", None), ("const", None), ("const", None))
            if k[0] == "tuple" and len(k[1]) == 2 and k[1][0] == ALL:
                return ("sub", v[1], k[1][1])  # frame.loc[:, cols] is frame[cols]
            if k[0] == "tuple" and len(k[1]) == 2 and k[1][1] == ALL:
                return ("sub", v[1], k[1][0]) if _is_mask(k[1][0]) or self._mask_valued(k[1][0]) else ("sub", v, k)
            if k[0] != "tuple" and (_is_mask(k) or self._mask_valued(k)):
                return ("sub", v[1], k)  # frame.loc[mask] is frame[mask]
            if k[0] == "tuple" and len(k[1]) == 2 and _is_mask(k[1][0]) and k[1][1][0] in ("const", "fstr", "list"):
                return ("sub", ("sub", v[1], k[1][0]), k[1][1])  # frame.loc[mask, cols] is frame[mask][cols]
        if k[0] == "tuple" and len(k[1]) == 2 \
                and k[1][0] == ("slice", ("const", None), ("const", None), ("const", None)) and k[1][1] == ("const", None):
            return ("call", ("attr", v, "reshape"), (("const", -1), ("const", 1)), ())  # x[:, None] of a vector is x.reshape(-1, 1)
        if v[0] == "attr" and v[2] == "index" and _is_mask(k):
            return ("attr", ("sub", v[1], k), "index")  # frame.index[mask] is frame[mask].index
        if k[0] == "const":
            nt = self._namedtuple_index(v, k[1])
            if nt is not None:
                return nt
        return index(v, k)

    def _mask_valued(self, k):
        """a name whose value is an element-wise truth vector (the mask kept in a variable)"""
        return False

    def e_Slice(self, e):
        f = lambda x: self.expr(x) if x is not None else ("const", None)  # noqa: E731
        return ("slice", f(e.lower), f(e.upper), f(e.step))

    def e_Tuple(self, e):
        return ("tuple", tuple(self.expr(x) for x in e.elts))

    def e_List(self, e):
        out = []
        for x in e.elts:
            t = self.expr(x)
            if t[0] == "starred" and t[1][0] in ("list", "tuple"):
                out += list(t[1][1])  # [*known_display, x] is the display with the elements in place
            else:
                out.append(t)
        return ("list", tuple(out))

    def e_Set(self, e):
        return ("set", tuple(self.expr(x) for x in e.elts))

    def e_Starred(self, e):
        return ("starred", self.expr(e.value))

    def e_Dict(self, e):
        items = []
        for k, v in zip(e.keys, e.values):
            vt = self.expr(v)
            if k is None and vt[0] == "dict" and all(k_ is not None for k_, _ in vt[1]):
                # {**d, ..} with d a display the def-use engine sees: the merged display (later keys win)
                for k_, v_ in vt[1]:
                    items = [(a_, b_) for a_, b_ in items if a_ != k_] + [(k_, v_)]
            elif k is None:
                items.append((None, vt))
            else:
                kt = self.expr(k)
                items = [(a_, b_) for a_, b_ in items if a_ != kt or a_ is None] + [(kt, vt)]
        return ("dict", tuple(items))

    def e_BinOp(self, e):
        l, r = self.expr(e.left), self.expr(e.right)
        if isinstance(e.op, ast.Add):
            j = _string_concat(l, r)
            if j is not None:
                return j
        return ("bin", BINOPS[type(e.op)], l, r)

    def e_UnaryOp(self, e):
        if isinstance(e.op, ast.USub) and isinstance(e.operand, ast.Constant) and isinstance(e.operand.value, (int, float)):
            return ("const", -e.operand.value)
        return ("un", UNOPS[type(e.op)], self.expr(e.operand))

    def e_BoolOp(self, e):
        return ("bool", "and" if isinstance(e.op, ast.And) else "or", tuple(self.expr(v) for v in e.values))

    def e_Compare(self, e):
        left = self.expr(e.left)
        parts = []
        for op, r in zip(e.ops, e.comparators):
            right = self.expr(r)
            o = CMPOPS[type(op)]
            # canonical direction: the "more constant" operand on the right (`0 > x` is `x < 0`, `limit >= df.col` is `df.col <= limit`)
            if o in _CMP_FLIP and _cmp_rank(left) > _cmp_rank(right):
                parts.append(("cmp", _CMP_FLIP[o], right, left))
            else:
                parts.append(("cmp", o, left, right))
            left = right
        return parts[0] if len(parts) == 1 else ("bool", "and", tuple(parts))

    def e_IfExp(self, e):
        c, a, b = self.expr(e.test), self.expr(e.body), self.expr(e.orelse)
        c, swap = branch_polarity(c)
        if swap:
            a, b = b, a
        dg = _dict_get(c, a, b)
        if dg is not None:
            return dg
        return ("ifexp", c, a, b)

    def e_JoinedStr(self, e):
        parts = []
        for v in e.values:
            if isinstance(v, ast.Constant):
                parts.append(("const", v.value))
            else:
                t = self.expr(v.value)
                if t[0] == "fstr" and not (v.format_spec is None and v.conversion == -1):
                    t = ("call", ("global", "format"), (t,), ())
                parts.append(t)
        # splice nested templates (a local holding an f-string used inside another f-string)
        flat = []
        for p in parts:
            if p[0] == "fstr":
                flat.extend(p[1])
            else:
                flat.append(p)
        parts = flat
        # merge adjacent constants
        out = []
        for p in parts:
            if out and p[0] == "const" and out[-1][0] == "const" and isinstance(p[1], str) and isinstance(out[-1][1], str):
                out[-1] = ("const", out[-1][1] + p[1])
            else:
                out.append(p)
        if len(out) == 1 and out[0][0] == "const":
            return out[0]
        if not out:
            return ("const", "")
        return ("fstr", tuple(out))

    def e_FormattedValue(self, e):
        return self.expr(e.value)

    def e_Lambda(self, e):
        lid = next(_ids)
        self.b.lambdas[lid] = (e, self.env, self.func, self.self_cls)
        return ("lambda", lid)

    def _comp(self, kind, e, elt_nodes):
        sub = self.fork()
        gens = []
        cid = next(_ids)
        for g in e.generators:
            it = sub.expr(g.iter)
            sub.store(g.target, ("elem", it, cid), e)
            conds = tuple(sub.expr(c) for c in g.ifs)
            gens.append((ast.unparse(g.target), it, conds))
        elt = tuple(sub.expr(x) for x in elt_nodes)
        return ("comp", kind, elt[0] if len(elt) == 1 else ("tuple", elt), tuple(gens), cid)

    def e_ListComp(self, e):
        return self._comp("list", e, [e.elt])

    def e_SetComp(self, e):
        return self._comp("set", e, [e.elt])

    def e_GeneratorExp(self, e):
        return self._comp("gen", e, [e.elt])

    def e_DictComp(self, e):
        return self._comp("dict", e, [e.key, e.value])

    def e_Yield(self, e):
        t = self.expr(e.value) if e.value is not None else ("const", None)
        self.sum.effects.append((self.pc, ("call", ("global", "yield"), (t,), ()), e))
        return ("unknown", "yield")

    def e_YieldFrom(self, e):
        t = self.expr(e.value)
        self.sum.effects.append((self.pc, ("call", ("global", "yield"), (("starred", t),), ()), e))
        return ("unknown", "yield")

    def e_Await(self, e):
        return self.expr(e.value)

    def e_NamedExpr(self, e):
        v = self.expr(e.value)
        self.store(e.target, v, e)
        return v

    def _query_mask(self, frame, q):
        """boolean-mask term of a DataFrame.query string over `frame` (columns by bare name, python variables by @name); None if the
        string uses anything beyond comparisons, and / or / not, & | ~, arithmetic and constants"""
        import re as _re
        try:
            tree = ast.parse(_re.sub(r"@([A-Za-z_]\w*)", r"__at__\1", q.strip()), mode="eval").body
        except SyntaxError:
            return None

        def cv(n):
            if isinstance(n, ast.BoolOp):
                vals = [cv(v) for v in n.values]
                if any(v is None for v in vals):
                    return None
                out = vals[0]
                for v in vals[1:]:
                    out = ("bin", "&" if isinstance(n.op, ast.And) else "|", out, v)
                return out
            if isinstance(n, ast.UnaryOp) and isinstance(n.op, (ast.Not, ast.Invert)):
                v = cv(n.operand)
                return None if v is None else ("un", "~", v)
            if isinstance(n, ast.BinOp) and isinstance(n.op, (ast.BitAnd, ast.BitOr)):
                l_, r_ = cv(n.left), cv(n.right)
                return None if l_ is None or r_ is None else ("bin", "&" if isinstance(n.op, ast.BitAnd) else "|", l_, r_)
            if isinstance(n, ast.BinOp) and type(n.op) in BINOPS:
                l_, r_ = cv(n.left), cv(n.right)
                return None if l_ is None or r_ is None else ("bin", BINOPS[type(n.op)], l_, r_)
            if isinstance(n, ast.Compare) and len(n.ops) == 1 and type(n.ops[0]) in CMPOPS:
                l_, r_ = cv(n.left), cv(n.comparators[0])
                if l_ is None or r_ is None:
                    return None
                o_ = CMPOPS[type(n.ops[0])]
                if o_ in _CMP_FLIP and _cmp_rank(l_) > _cmp_rank(r_):
                    return ("cmp", _CMP_FLIP[o_], r_, l_)
                return ("cmp", o_, l_, r_)
            if isinstance(n, ast.Name):
                if n.id.startswith("__at__"):
                    return self.expr(ast.Name(id=n.id[len("__at__"):], ctx=ast.Load()))
                return ("attr", frame, n.id)
            if isinstance(n, ast.Constant):
                return ("const", n.value)
            return None

        return cv(tree)

    def e_Call(self, e):
        # super().m(..)
        f = e.func
        args = tuple(self.expr(a) for a in e.args)
        kws = tuple((k.arg, self.expr(k.value)) for k in e.keywords)
        # f(**d) with d a display of string keys the def-use engine sees is the call with those keywords
        if any(k_ is None for k_, _ in kws):
            new = []
            for k_, v_ in kws:
                if k_ is None and v_[0] == "dict" and v_[1] and all(a_ is not None and a_[0] == "const" and isinstance(a_[1], str) for a_, _ in v_[1]):
                    new += [(a_[1], b_) for a_, b_ in v_[1]]
                else:
                    new.append((k_, v_))
            kws = tuple(new)
        # canonical order of named keywords (their order in the source does not matter to the callee); **mappings stay last
        kws = tuple(sorted((kv for kv in kws if kv[0] is not None), key=lambda kv: kv[0])) + tuple(kv for kv in kws if kv[0] is None)
        if (isinstance(f, ast.Attribute) and isinstance(f.value, ast.Call) and isinstance(f.value.func, ast.Name)
                and f.value.func.id == "super"):
            ft = ("attr", ("global", "super"), f.attr)
        else:
            ft = self.expr(f)
        if ft[0] == "call" and ft[1] == ("global", "functools.partial") and ft[2] and not any(a_[0] == "starred" for a_ in ft[2] + args):
            # p = functools.partial(g, *a, **k); p(*b, **k2)  is  g(*a, *b, **{**k, **k2}): the call is read with the bound arguments in place
            bound = {k_: v_ for k_, v_ in ft[3] if k_ is not None and not k_.startswith("#")}
            bound.update({k_: v_ for k_, v_ in kws if k_ is not None})
            rest_ = tuple(kv for kv in tuple(ft[3]) + kws if kv[0] is None)
            args = tuple(ft[2][1:]) + args
            kws = tuple(sorted(bound.items(), key=lambda kv: kv[0])) + rest_
            ft = ft[2][0]
        if ft == ("global", "any") and len(args) == 1 and not kws and args[0][0] == "comp" and len(args[0][3]) == 1 and not args[0][3][0][2]:
            # any(x.startswith(p) for p in P) asks the same as x.startswith(tuple(p for p in P)): one canonical spelling (the tuple form)
            c_ = args[0]
            el = c_[2]
            if (el[0] == "call" and el[1][0] == "attr" and el[1][2] in ("startswith", "endswith") and len(el[2]) == 1 and not el[3]
                    and not any(x[0] == "elem" and len(x) == 3 and x[2] == c_[4] for x in walk(el[1][1]))):
                return ("call", ("attr", el[1][1], el[1][2]), (("call", ("global", "tuple"), (("comp", "gen", el[2][0], c_[3], c_[4]),), ()),), ())
        syn = _synonym(ft, args, kws)
        if syn is not None:
            return syn
        if ft == ("global", "numpy.flatnonzero") and len(args) == 1 and not kws:
            return ("sub", ("call", ("global", "numpy.where"), args, ()), ("const", 0))  # positions of the true entries of a vector: one spelling
        if ft[0] == "attr" and ft[2] == "to_numpy" and not args and not kws:
            return ("attr", ft[1], "values")  # frame.to_numpy() and frame.values are the same array: one canonical spelling
        if (kws or args) and self.b.resolver is not None and not any(a_[0] == "starred" for a_ in args):
            # a call of a repository function: keywords that name the next positional parameters are the same call as the positional
            # form - one canonical spelling (leading positional arguments, the rest by keyword)
            try:
                cs = self.b.resolver.resolve_call(self.func, e, self.self_cls)
            except Exception:
                cs = []
            if len(cs) == 1 and isinstance(cs[0], FuncInfo) and not cs[0].has_vararg:
                cal = cs[0]
                params = cal.params[1:] if (cal.cls is not None and not _is_static(cal) and cal.params[:1] in (["self"], ["cls"])) else cal.params
                named = {k_: v_ for k_, v_ in kws if k_ is not None}
                pos = list(args)
                for p_ in params[len(pos):]:
                    if p_ in named:
                        pos.append(named[p_])
                    else:
                        break
                # canonical: the longest positional prefix AND every bound parameter by name (so that a rule may read an argument by
                # position or by name, whichever way the call is spelled)
                for p_, v_ in zip(params, pos):
                    named[p_] = v_
                args = tuple(pos)
                kws = tuple(sorted(named.items(), key=lambda kv: kv[0])) + tuple(kv for kv in kws if kv[0] is None)
        if ft[0] == "attr" and ft[2] in _ARITH_METHODS and len(args) == 1 and not kws and ft[1][0] in ("sub", "attr", "bin", "call", "param", "col") \
                and not (ft[1][0] == "call" and ft[1][1][0] == "global" and ft[1][1][1].split(".")[-1] in ("set", "dict", "list", "frozenset")):
            # Series / array arithmetic methods without options are the operators: a.sub(b).div(b) is (a - b) / b
            return ("bin", _ARITH_METHODS[ft[2]], ft[1], args[0])
        if ft[0] == "attr" and ft[2] == "assign" and not args and kws and all(k_ is not None and v_[0] not in ("lambda", "closure", "global", "unknown") for k_, v_ in kws):
            # frame.assign(col=<value>) (no callable) is a copy of the frame with that column set: the spelling `c = frame.copy(); c[col] = <value>`
            out_ = ("call", ("attr", ft[1], "copy"), (), ())
            for k_, v_ in kws:
                out_ = ("setitem", out_, ("const", k_), v_)
            return out_
        if ft[0] == "attr" and ft[2] == "query" and len(args) == 1 and not kws and args[0][0] == "const" and isinstance(args[0][1], str):
            m_ = self._query_mask(ft[1], args[0][1])
            if m_ is not None:
                return ("sub", ft[1], m_)  # frame.query("a > @b") selects the same rows as frame[frame.a > b]: one canonical spelling
        if ft[0] == "attr" and ft[2] == "format" and ft[1][0] == "const" and isinstance(ft[1][1], str):
            tpl = _format_template(ft[1][1], args, kws)
            if tpl is not None:
                return tpl  # "a_{}_b".format(x) is the same string as f"a_{x}_b"
        if self._constructor_like(f, ft):
            # object identity: two syntactically equal constructor calls create two objects
            kws = kws + (("#new", ("const", self.b.site_id(e))),)
        term = ("call", ft, args, kws)
        # optional inlining of repo callees; a callee that did not exist when the rules were written (an extracted helper) is looked
        # through by default, a little deeper than the requested bound
        if self.b.resolver is not None and self.depth < self.b.max_depth + 2 and (self.b.inline is not None or _maybe_new(ft)):
            callees = self.b.resolver.resolve_call(self.func, e, self.self_cls)
            if len(callees) == 1 and isinstance(callees[0], FuncInfo) and (
                    (self.b.inline is not None and self.depth < self.b.max_depth and self.b.inline(self.func, e, callees[0]))
                    or _is_new_function(callees[0])):
                callee = callees[0]
                bind = bind_args(callee, args, kws, method=callee.cls is not None and not _is_static(callee))
                if bind is not None:
                    if callee.cls is not None and "self" in callee.params[:1]:
                        bind["self"] = ("param", "self")
                    ev = _Eval(self.b, callee, bind, None, self.depth + 1, self.self_cls if callee.cls else None)
                    if callee.cls is not None:
                        ev.attrs = dict(self.attrs)
                    s = ev.run()
                    if callee.cls is not None:
                        self.attrs.update(s.attrs)
                        for w in s.attr_writes:
                            self.sum.attr_writes.append((self.pc + w[0], w[1], w[2], w[3]))
                    self.sum.effects += [(self.pc + pc, t, n) for pc, t, n in s.effects]
                    self.sum.raises += [(self.pc + pc, t, n) for pc, t, n in s.raises]
                    return s.ret()
        return term


_KNOWN = None
_KNOWN_BARE = None


def _known_functions():
    global _KNOWN
    if _KNOWN is None:
        import os
        p = os.path.join(os.path.dirname(os.path.abspath(__file__)), "known_functions.txt")
        try:
            _KNOWN = {l.strip() for l in open(p) if l.strip()}
        except OSError:
            _KNOWN = set()
    return _KNOWN


def _new_constant_value(module, name):
    """a module-level NAME = <literal> that did not exist when the rules were written (a magic number moved to module level) reads as the
    literal itself; constants the rules know by name (S3_FILE_PATH, BASELINE_PREFIX ..) stay symbolic"""
    k = _known_functions()
    node = module.constants.get(name)
    try:
        v = ast.literal_eval(node)
    except Exception:
        return None
    # a string constant is its text wherever it is used to build a name (RESULTS_PREFIX + e, f"{BASELINE_PREFIX}{e}"): always folded.
    # Other known constants (lists, numbers the rules refer to by name) stay symbolic.
    if not isinstance(v, str) and (not k or f"const {module.name}:{name}" in k):
        return None

    def lit(x):
        if isinstance(x, (str, int, float, bool, type(None))):
            return ("const", x)
        if isinstance(x, tuple):
            return ("tuple", tuple(lit(y) for y in x))
        if isinstance(x, list):
            return ("list", tuple(lit(y) for y in x))
        raise ValueError
    try:
        return lit(v)
    except ValueError:
        return None


def _maybe_new(ft):
    """cheap pre-filter before resolving a call: self.<name>(..) or <name>(..) whose name is in no known qualname"""
    name = ft[2] if ft[0] == "attr" else (ft[1].split(":")[-1].split(".")[-1] if ft[0] == "global" else None)
    if name is None:
        return False
    k = _known_functions()
    global _KNOWN_BARE
    if _KNOWN_BARE is None:
        _KNOWN_BARE = {q.split(":")[-1].split(".")[-1] for q in k}
    return bool(k) and name not in _KNOWN_BARE


def _is_new_function(fi):
    """a function whose NAME the inventory does not have. (A known method moved to module level or to a mixin keeps its name: it is the
    same anchor at a new place - model.Repo.func finds it there - and is not looked through.)"""
    k = _known_functions()
    global _KNOWN_BARE
    if _KNOWN_BARE is None:
        _KNOWN_BARE = {q.split(":")[-1].split(".")[-1] for q in k}
    return bool(k) and fi.name not in _KNOWN_BARE and fi.name != "__init__"


def _ctor_name(ft):
    if ft[0] == "global":
        last = ft[1].split(":")[-1].split(".")[-1]
        return last
    return None


def _is_static(fi):
    return any(isinstance(d, ast.Name) and d.id == "staticmethod" for d in fi.node.decorator_list)


def bind_args(callee, args, kws, method=False):
    """Bind call arguments to callee parameters; None if not statically bindable."""
    params = callee.params
    if method:
        params = params[1:]
    out = {}
    if any(a[0] == "starred" for a in args) or any(k is None for k, _ in kws):
        return None
    kws = tuple((k, v) for k, v in kws if k != "#new")
    extra = []
    for i, a in enumerate(args):
        if i < len(params):
            out[params[i]] = a
        else:
            extra.append(a)
    if extra:
        if callee.has_vararg:
            out[callee.node.args.vararg.arg] = ("tuple", tuple(extra))
        else:
            return None
    extra_kw = []
    for k, v in kws:
        if k == "#new":
            continue
        if k in params or k in callee.kwonly:
            out[k] = v
        else:
            extra_kw.append((("const", k), v))
    if callee.has_varkw:
        out[callee.node.args.kwarg.arg] = ("dict", tuple(extra_kw))
    elif extra_kw:
        return None
    # defaults
    for p, d in callee.defaults().items():
        if p not in out:
            try:
                v = ast.literal_eval(d)
                if isinstance(v, list):
                    out[p] = ("list", tuple(("const", x) for x in v)) if all(isinstance(x, (str, int, float, bool, type(None))) for x in v) else ("unknown", "default")
                elif isinstance(v, dict):
                    out[p] = ("dict", ()) if not v else ("unknown", "default:" + ast.unparse(d))
                elif isinstance(v, (set, tuple)):
                    out[p] = ("unknown", "default:" + ast.unparse(d))
                else:
                    out[p] = ("const", v)
            except Exception:
                out[p] = ("unknown", "default:" + ast.unparse(d))
    if callee.has_vararg and callee.node.args.vararg.arg not in out:
        out[callee.node.args.vararg.arg] = ("tuple", ())
    return out


def _assigned_names(stmts):
    out = []
    for st in stmts:
        for n in ast.walk(st):
            if isinstance(n, (ast.FunctionDef, ast.Lambda)):
                continue
            tgts = []
            if isinstance(n, ast.Assign):
                tgts = n.targets
            elif isinstance(n, (ast.AugAssign, ast.AnnAssign)):
                tgts = [n.target]
            elif isinstance(n, (ast.For,)):
                tgts = [n.target]
            elif isinstance(n, ast.Expr) and isinstance(n.value, ast.Call) and isinstance(n.value.func, ast.Attribute):
                meth = n.value.func.attr
                inplace = any(k.arg == "inplace" for k in n.value.keywords)
                if meth in MUTATORS or (meth in INPLACE_KW and inplace):
                    tgts = [n.value.func.value]
            for t in tgts:
                for r in _target_roots(t):
                    if r != "self" and r not in out:
                        out.append(r)
    return out


def _target_roots(t):
    """root names bound / mutated by an assignment target (x, x[i], x.a.b[i], (x, y))"""
    if isinstance(t, ast.Name):
        return [t.id]
    if isinstance(t, (ast.Tuple, ast.List)):
        out = []
        for e in t.elts:
            out += _target_roots(e)
        return out
    if isinstance(t, ast.Starred):
        return _target_roots(t.value)
    while isinstance(t, (ast.Subscript, ast.Attribute)):
        t = t.value
    return [t.id] if isinstance(t, ast.Name) else []


def _assigned_self_attrs(stmts):
    out = []
    for st in stmts:
        for n in ast.walk(st):
            tgts = []
            if isinstance(n, ast.Assign):
                tgts = n.targets
            elif isinstance(n, (ast.AugAssign, ast.AnnAssign)):
                tgts = [n.target]
            elif isinstance(n, ast.Expr) and isinstance(n.value, ast.Call) and isinstance(n.value.func, ast.Attribute):
                if n.value.func.attr in MUTATORS:
                    tgts = [n.value.func.value]
            for t in tgts:
                while isinstance(t, (ast.Subscript,)):
                    t = t.value
                if isinstance(t, ast.Attribute) and isinstance(t.value, ast.Name) and t.value.id == "self":
                    if t.attr not in out:
                        out.append(t.attr)
    return out


# ---------------------------------------------------------------------------------------------
# term utilities

def repo_call(fterm, named_args):
    """canonical term of a call of a repository function whose arguments are all bound positionally in the source or not - the def-use
    engine writes such calls with the longest positional prefix AND every bound parameter by name (see _Eval.e_Call):
    repo_call(('attr', self, 'm'), [('a', A), ('b', B)])  ==  term of  self.m(A, B) / self.m(A, b=B) / self.m(a=A, b=B)"""
    return ("call", fterm, tuple(v for _, v in named_args), tuple(sorted(named_args, key=lambda kv: kv[0])))


def _dict_get(cond, a, b):
    """`d[k] if k in d else default` (statement or expression form) is d.get(k, default): one canonical spelling. cond / a / b as in
    phi(cond, a, b); returns the call term or None."""
    if cond[0] == "cmp" and cond[1] in ("in", "not in") and len(cond) == 4:
        k_, d_ = cond[2], cond[3]
        hit, miss = (a, b) if cond[1] == "in" else (b, a)
        if hit == ("sub", d_, k_) and k_[0] == "const" and not any(x == ("sub", d_, k_) for x in walk(miss)):
            return ("call", ("attr", d_, "get"), (k_, miss), ())
    return None


def index(v, k):
    """v[k]; element i of a leading slice is element i of the sequence: x[:n][i] = x[i] for constant 0 <= i < n (what `a, b = x[:2]` reads)"""
    if (k[0] == "const" and isinstance(k[1], int) and not isinstance(k[1], bool) and k[1] >= 0 and v[0] == "sub" and v[2][0] == "slice"
            and v[2][1] in (("const", None), ("const", 0)) and v[2][3] in (("const", None), ("const", 1))
            and v[2][2][0] == "const" and isinstance(v[2][2][1], int) and k[1] < v[2][2][1]):
        return ("sub", v[1], k)
    if (k[0] == "const" and isinstance(k[1], int) and not isinstance(k[1], bool) and k[1] >= 0 and v[0] == "call" and v[1] == ("global", "numpy.split")
            and len(v[2]) == 2 and v[2][1][0] in ("list", "tuple") and k[1] <= len(v[2][1][1]) and dict(v[3]).get("axis", ("const", 0)) == ("const", 0)):
        # numpy.split(x, [a, b])[i] are the consecutive row blocks x[:a], x[a:b], x[b:]
        cuts = (("const", None),) + tuple(v[2][1][1]) + (("const", None),)
        return ("sub", v[2][0], ("slice", cuts[k[1]], cuts[k[1] + 1], ("const", None)))
    return ("sub", v, k)


def nrows(x):
    """canonical term for the number of rows of a frame / array: `x.shape[0]` and `len(x)` both read as len(x)"""
    return ("call", ("global", "len"), (x,), ())


def _format_template(template, args, kws):
    """'..{}..{name}..'.format(a, name=b) -> the f-string template term (None when a field has a conversion / format spec / attribute
    access, or cannot be bound)"""
    import string
    parts, auto = [], 0
    named = {k_: v_ for k_, v_ in kws if k_ is not None}
    try:
        fields = list(string.Formatter().parse(template))
    except ValueError:
        return None
    for lit, field, spec, conv in fields:
        if lit:
            parts.append(("const", lit))
        if field is None:
            continue
        if spec or conv:
            return None
        if field == "":
            if auto >= len(args):
                return None
            parts.append(args[auto])
            auto += 1
        elif field.isdigit():
            if int(field) >= len(args):
                return None
            parts.append(args[int(field)])
        elif field.isidentifier() and field in named:
            parts.append(named[field])
        else:
            return None
    out = []
    for p in parts:
        if p[0] == "fstr":
            out.extend(p[1])
        elif out and p[0] == "const" and out[-1][0] == "const" and isinstance(p[1], str) and isinstance(out[-1][1], str):
            out[-1] = ("const", out[-1][1] + p[1])
        else:
            out.append(p)
    if len(out) == 1 and out[0][0] == "const":
        return out[0]
    if not out:
        return ("const", "")
    return ("fstr", tuple(out))


def _stringy_parts(t):
    """parts of a term that is known to be a string built from pieces: a str constant, an f-string template, str(x)"""
    if t[0] == "const" and isinstance(t[1], str):
        return [t]
    if t[0] == "fstr":
        return list(t[1])
    if t[0] == "call" and t[1] == ("global", "str") and len(t[2]) == 1 and not t[3]:
        return [t[2][0]]
    return None


def _string_concat(l, r):
    """"a" + str(b) + "c" is the same value as f"a{b}c": string concatenations are given the canonical template form, so that a column
    name reads the same however it is spelled. Only when one side is KNOWN to be a string (constant, template, str(..))."""
    lp, rp = _stringy_parts(l), _stringy_parts(r)
    if lp is None and rp is None:
        return None
    parts = (lp if lp is not None else [l]) + (rp if rp is not None else [r])
    out = []
    for p in parts:
        if out and p[0] == "const" and out[-1][0] == "const" and isinstance(p[1], str) and isinstance(out[-1][1], str):
            out[-1] = ("const", out[-1][1] + p[1])
        else:
            out.append(p)
    if len(out) == 1 and out[0][0] == "const":
        return out[0]
    return ("fstr", tuple(out))


def children(t):
    """Direct sub-terms of a term."""
    k = t[0]
    if k in ("const", "param", "global", "lambda", "closure", "unknown", "exc"):
        return ()
    if k in ("attr", "setattr"):
        return (t[1],) + ((t[3],) if k == "setattr" else ())
    if k in ("sub",):
        return (t[1], t[2])
    if k == "slice":
        return (t[1], t[2], t[3])
    if k == "call":
        return (t[1],) + tuple(t[2]) + tuple(v for _, v in t[3])
    if k == "mut":
        return (t[1],) + tuple(t[3]) + tuple(v for _, v in t[4])
    if k in ("bin", "cmp"):
        return (t[2], t[3])
    if k == "un":
        return (t[2],)
    if k == "bool":
        return tuple(t[2])
    if k in ("ifexp", "phi", "setitem"):
        return (t[1], t[2], t[3])
    if k in ("fstr", "tuple", "list", "set"):
        return tuple(t[1])
    if k == "dict":
        return tuple(x for kv in t[1] for x in kv if x is not None)
    if k == "starred":
        return (t[1],)
    if k == "elem":
        return (t[1],)
    if k == "loopin":
        return (t[3],) if t[3] is not None else ()
    if k == "loopout":
        return (t[3], t[4]) + ((t[5],) if len(t) > 5 else ())
    if k == "comp":
        return (t[2],) + tuple(g[1] for g in t[3]) + tuple(c for g in t[3] for c in g[2])
    if k == "loop":
        return (t[2],)
    return ()


def map_terms(t, fn, _memo=None):
    """bottom-up rewriting of every sub-term by fn (memoised)"""
    if _memo is None:
        _memo = {}
    if not isinstance(t, tuple) or not t or not isinstance(t[0], str) or t[0] == "const":
        return t
    if t in _memo:
        return _memo[t]
    out = fn(map_children(t, lambda x: map_terms(x, fn, _memo)))
    _memo[t] = out
    return out


def map_children(t, fn):
    """Rebuild term t with fn applied to each direct sub-term."""
    k = t[0]
    if k in ("const", "param", "global", "lambda", "closure", "unknown", "exc"):
        return t
    if k == "attr":
        return I((k, fn(t[1]), t[2]))
    if k == "setattr":
        return I((k, fn(t[1]), t[2], fn(t[3])))
    if k == "sub":
        return I((k, fn(t[1]), fn(t[2])))
    if k == "slice":
        return I((k, fn(t[1]), fn(t[2]), fn(t[3])))
    if k == "call":
        return I((k, fn(t[1]), tuple(fn(a) for a in t[2]), tuple((kk, v if kk == "#new" else fn(v)) for kk, v in t[3])))
    if k == "mut":
        return I((k, fn(t[1]), t[2], tuple(fn(a) for a in t[3]), tuple((kk, fn(v)) for kk, v in t[4])))
    if k in ("bin", "cmp"):
        return I((k, t[1], fn(t[2]), fn(t[3])))
    if k == "un":
        return I((k, t[1], fn(t[2])))
    if k == "bool":
        return I((k, t[1], tuple(fn(x) for x in t[2])))
    if k in ("ifexp", "phi", "setitem"):
        return I((k, fn(t[1]), fn(t[2]), fn(t[3])))
    if k in ("fstr", "tuple", "list", "set"):
        return I((k, tuple(fn(x) for x in t[1])))
    if k == "dict":
        return I((k, tuple((fn(a) if a is not None else None, fn(b)) for a, b in t[1])))
    if k == "starred":
        return I((k, fn(t[1])))
    return t


def walk(term):
    """All sub-terms, pre-order (each distinct sub-term once)."""
    seen = set()
    stack = [term]
    while stack:
        t = stack.pop()
        if not isinstance(t, tuple) or not t or t in seen:
            continue
        seen.add(t)
        yield t
        stack.extend(reversed(children(t)))


def subst(term, mapping, _memo=None):
    """Replace sub-terms (memoised: terms are DAGs)."""
    if _memo is None:
        _memo = {}
    if not isinstance(term, tuple):
        return term
    if term and term[0] == "const":
        # literals are leaves; and 1 == True == 1.0 as dictionary keys, so they must not go through the memo
        for k_, v_ in mapping.items():
            if k_ == term and type(k_[1]) is type(term[1]):
                return v_
        return term
    if term in mapping:
        return mapping[term]
    tagged = bool(term) and isinstance(term[0], str)
    if tagged and term in _memo:
        return _memo[term]
    out = tuple(subst(x, mapping, _memo) if isinstance(x, tuple) else x for x in term)
    if tagged:
        out = I(out)
        _memo[term] = out
    return out


def comm(t, op):
    """Both operand orders of a commutative binary term ('*' on numbers / arrays, '+' on numbers): [(l, r), (r, l)] or []."""
    if t[0] == "bin" and t[1] == op:
        return [(t[2], t[3]), (t[3], t[2])]
    return []


_CMP_FLIP = {"<": ">", ">": "<", "<=": ">=", ">=": "<=", "==": "==", "!=": "!="}


def _cmp_rank(t):
    """How constant an operand of a comparison is: literal 3, bare parameter / global 2, attribute of self 1, anything else 0."""
    if t[0] == "const":
        return 3
    if t[0] in ("param", "global"):
        return 2
    if t[0] == "un" and t[2][0] == "const":
        return 3
    r = t
    while r[0] == "attr":
        r = r[1]
    if t[0] == "attr" and r == ("param", "self"):
        return 1
    return 0


def resolve_phi(term, cond, value, _memo=None):
    """View of `term` on the paths where branch condition `cond` has the given truth value: every phi on that condition is
    replaced by the branch taken (memoised)."""
    if _memo is None:
        _memo = {}
    if not isinstance(term, tuple) or not term or not isinstance(term[0], str):
        return term
    if term in _memo:
        return _memo[term]
    if term[0] == "phi" and term[1] == cond:
        out = resolve_phi(term[2] if value else term[3], cond, value, _memo)
    else:
        out = map_children(term, lambda x: resolve_phi(x, cond, value, _memo))
    _memo[term] = out
    return out


def show(term, depth=0, maxdepth=12):
    """Readable rendering of a term (for reports)."""
    if not isinstance(term, tuple) or not term:
        return repr(term)
    if depth > maxdepth:
        return "..."
    k = term[0]
    s = lambda t: show(t, depth + 1, maxdepth)  # noqa: E731
    if k == "const":
        return repr(term[1])
    if k == "param":
        return term[1]
    if k == "global":
        return term[1].split(":")[-1]
    if k == "attr":
        return f"{s(term[1])}.{term[2]}"
    if k == "sub":
        return f"{s(term[1])}[{s(term[2])}]"
    if k == "slice":
        f = lambda t: "" if t == ("const", None) else s(t)  # noqa: E731
        return f"{f(term[1])}:{f(term[2])}" + (f":{f(term[3])}" if term[3] != ("const", None) else "")
    if k == "call":
        a = [s(x) for x in term[2]] + [(f"{kk}={s(v)}" if kk else f"**{s(v)}") for kk, v in term[3] if kk != "#new"]
        return f"{s(term[1])}({', '.join(a)})"
    if k == "bin":
        return f"({s(term[2])} {term[1]} {s(term[3])})"
    if k == "un":
        return f"({term[1]} {s(term[2])})"
    if k == "cmp":
        return f"({s(term[2])} {term[1]} {s(term[3])})"
    if k == "bool":
        return "(" + f" {term[1]} ".join(s(x) for x in term[2]) + ")"
    if k == "fstr":
        return "f'" + "".join(p[1] if p[0] == "const" else "{" + s(p) + "}" for p in term[1]) + "'"
    if k in ("tuple", "list", "set"):
        o, c = {"tuple": "()", "list": "[]", "set": "{}"}[k]
        return o + ", ".join(s(x) for x in term[1]) + c
    if k == "dict":
        return "{" + ", ".join((f"{s(a)}: {s(b)}" if a is not None else f"**{s(b)}") for a, b in term[1]) + "}"
    if k == "phi":
        return f"phi({s(term[1])} ? {s(term[2])} : {s(term[3])})"
    if k == "setitem":
        return f"{s(term[1])}<[{s(term[2])}]:={s(term[3])}>"
    if k == "setattr":
        return f"{s(term[1])}<.{term[2]}:={s(term[3])}>"
    if k == "mut":
        return f"{s(term[1])}<.{term[2]}({', '.join(s(x) for x in term[3])})>"
    if k == "elem":
        return f"elem#{term[2]}({s(term[1])})"
    if k == "loopin":
        return f"loopin#{term[2]}({term[1]})"
    if k == "loopout":
        return f"loopout#{term[1]}({term[2]}; init={s(term[3])}; body={s(term[4])})"
    if k == "ifexp":
        return f"({s(term[2])} if {s(term[1])} else {s(term[3])})"
    if k == "starred":
        return "*" + s(term[1])
    if k == "comp":
        return f"comp#{term[4]}[{s(term[2])} for {', '.join(g[0] + ' in ' + s(g[1]) for g in term[3])}]"
    return f"<{k}:{','.join(str(x) for x in term[1:])}>"


def dict_read_base(t, key):
    """The mapping a read of constant `key` really looks at: copies (dict(x), x.copy(), {**x}) and writes of OTHER constant keys
    (single item assignments, or a loop writing the elements of a literal tuple of names) are looked through.
    -> the base term, or None when a write of `key` itself (or of a key that cannot be told apart) is in the way."""
    for _ in range(20):
        k = t[0]
        if k == "call" and t[1] == ("global", "dict") and len(t[2]) == 1 and not [kv for kv in t[3] if not str(kv[0]).startswith("#")]:
            t = t[2][0]
        elif k == "call" and t[1][0] == "attr" and t[1][2] == "copy" and not t[2]:
            t = t[1][1]
        elif k == "setitem":
            ks = _const_keys(t[2])
            if ks is None or key in ks:
                return None
            t = t[1]
        elif k == "loopout":
            written = set()
            for x in walk(t[4]):
                if x[0] == "setitem":
                    ks = _const_keys(x[2])
                    if ks is None:
                        return None
                    written |= ks
                elif x[0] == "call" and x[1][0] == "attr" and x[1][2] in ("update", "pop", "setdefault", "clear", "popitem"):
                    return None
            if key in written:
                return None
            t = t[3]
        elif k == "phi":
            a, b = dict_read_base(t[2], key), dict_read_base(t[3], key)
            if a is None or a != b:
                return None
            return a
        else:
            return t
    return None


def _const_keys(kt):
    if kt[0] == "const":
        return {kt[1]}
    if kt[0] == "elem" and kt[1][0] in ("tuple", "list") and all(e[0] == "const" for e in kt[1][1]):
        return {e[1] for e in kt[1][1]}
    return None
