"""E7 - expression normaliser: arithmetic terms -> canonical rational functions over named atoms.

Field axioms only (commutativity, associativity, distribution, exact constant folding). Everything that is not
+ - * / ** (integer power) is an *atom*: an uninterpreted symbol whose arguments are normalised recursively
(max / min are commutative). Two expressions are reported equal only if their cross-multiplied polynomials are
identical, so equivalent rewrites compare equal and anything else does not.
"""
from __future__ import annotations

import ast
from fractions import Fraction

from . import ir
from .model import AnalysisError

COMMUTATIVE = {"max", "min"}
FUNC_ALIASES = {
    "maximum": "max", "max": "max", "minimum": "min", "min": "min", "floor": "floor", "ceil": "ceil",
    "round": "round", "nan_to_num": "nan_to_num", "sqrt": "sqrt", "abs": "abs", "sum": "sum", "quantile": "quantile",
    "ppf": "ppf", "clip": "clip", "mean": "mean", "cumsum": "cumsum", "power": "power", "diff": "diff", "where": "where",
    "isclose": "isclose", "std": "std", "exp": "exp", "expit": "expit", "log": "log", "dot": "dot", "len": "len",
    "int": "int", "float": "float",
}
# methods / attributes that do not change values (shape / container only)
TRANSPARENT_METHODS = {"flatten", "reshape", "to_numpy", "copy", "ravel", "squeeze", "tolist", "astype"}
TRANSPARENT_ATTRS = {"values", "T_"}


class Poly:
    __slots__ = ("t",)

    def __init__(self, t=None):
        self.t = {k: v for k, v in (t or {}).items() if v != 0}

    @staticmethod
    def const(c):
        return Poly({(): Fraction(c)})

    @staticmethod
    def atom(name):
        return Poly({((name, 1),): Fraction(1)})

    def __add__(self, o):
        t = dict(self.t)
        for k, v in o.t.items():
            t[k] = t.get(k, 0) + v
        return Poly(t)

    def __neg__(self):
        return Poly({k: -v for k, v in self.t.items()})

    def __sub__(self, o):
        return self + (-o)

    def __mul__(self, o):
        t = {}
        for k1, v1 in self.t.items():
            for k2, v2 in o.t.items():
                d = dict(k1)
                for a, e in k2:
                    d[a] = d.get(a, 0) + e
                k = tuple(sorted((a, e) for a, e in d.items() if e != 0))
                t[k] = t.get(k, 0) + v1 * v2
        return Poly(t)

    def __eq__(self, o):
        return self.t == o.t

    def __hash__(self):
        return hash(tuple(sorted(self.t.items())))

    def is_const(self):
        return all(k == () for k in self.t)

    def cval(self):
        return self.t.get((), Fraction(0))

    def is_zero(self):
        return not self.t

    def key(self):
        if not self.t:
            return "0"
        parts = []
        for k in sorted(self.t):
            c = self.t[k]
            mon = "*".join(a if e == 1 else f"{a}^{e}" for a, e in k)
            if not mon:
                parts.append(str(c))
            elif c == 1:
                parts.append(mon)
            else:
                parts.append(f"{c}*{mon}")
        return " + ".join(parts)

    def atoms(self):
        return {a for k in self.t for a, _ in k}


class Rat:
    __slots__ = ("n", "d")

    def __init__(self, n, d=None):
        self.n = n
        self.d = d if d is not None else Poly.const(1)
        if self.d.is_zero():
            raise AnalysisError("symbolic division by zero")
        if self.d.is_const() and self.d.cval() != 1:
            c = self.d.cval()
            self.n = Poly({k: v / c for k, v in self.n.t.items()})
            self.d = Poly.const(1)

    def __add__(self, o):
        if self.d == o.d:
            return Rat(self.n + o.n, self.d)
        return Rat(self.n * o.d + o.n * self.d, self.d * o.d)

    def __neg__(self):
        return Rat(-self.n, self.d)

    def __sub__(self, o):
        return self + (-o)

    def __mul__(self, o):
        return Rat(self.n * o.n, self.d * o.d)

    def __truediv__(self, o):
        if o.n.is_zero():
            raise AnalysisError("symbolic division by zero")
        return Rat(self.n * o.d, self.d * o.n)

    def __eq__(self, o):
        return self.n * o.d == o.n * self.d

    def __hash__(self):
        return hash(self.key())

    def is_const(self):
        return self.n.is_const() and self.d.is_const()

    def cval(self):
        return self.n.cval() / self.d.cval()

    def key(self):
        if self.d.is_const():
            return self.n.key()
        # normalise sign/scale by the leading coefficient of the denominator
        lead = self.d.t[sorted(self.d.t)[0]]
        n = Poly({k: v / lead for k, v in self.n.t.items()})
        d = Poly({k: v / lead for k, v in self.d.t.items()})
        return f"({n.key()})/({d.key()})"

    def atoms(self):
        return self.n.atoms() | self.d.atoms()


def const(c):
    return Rat(Poly.const(c))


def atom(name):
    return Rat(Poly.atom(name))


def _frac(v):
    if isinstance(v, bool):
        return Fraction(int(v))
    if isinstance(v, int):
        return Fraction(v)
    if isinstance(v, float):
        return Fraction(repr(v))
    raise AnalysisError(f"not a number: {v!r}")


class Normalizer:
    """norm(term) -> Rat. `leaf(term)` may map a term to an atom name (str), to a Rat, or return None to
    use the default treatment."""

    def __init__(self, leaf=None, builder=None):
        self.leaf = leaf
        self.builder = builder
        self.memo = {}

    def norm(self, t):
        if t in self.memo:
            return self.memo[t]
        r = self._norm(t)
        self.memo[t] = r
        return r

    def fname(self, f):
        """canonical function symbol of a callee term, or None"""
        if f[0] == "global":
            last = f[1].split(".")[-1].split(":")[-1]
            return FUNC_ALIASES.get(last, last)
        if f[0] == "attr":
            return FUNC_ALIASES.get(f[2], f[2])
        return None

    def _norm(self, t):
        if self.leaf is not None:
            r = self.leaf(t)
            if isinstance(r, Rat):
                return r
            if isinstance(r, str):
                return atom(r)
        k = t[0]
        if k == "const":
            if isinstance(t[1], (int, float)) and not isinstance(t[1], bool):
                return const(_frac(t[1]))
            return atom(repr(t[1]))
        if k == "bin":
            op = t[1]
            if op in "+-*/":
                a, b = self.norm(t[2]), self.norm(t[3])
                return {"+": a.__add__, "-": a.__sub__, "*": a.__mul__, "/": a.__truediv__}[op](b)
            if op == "**":
                b = self.norm(t[3])
                if b.is_const() and b.cval().denominator == 1 and 0 <= b.cval() <= 6:
                    a = self.norm(t[2])
                    r = const(1)
                    for _ in range(int(b.cval())):
                        r = r * a
                    return r
                if b.is_const() and b.cval() == Fraction(1, 2):
                    return atom(f"sqrt({self.norm(t[2]).key()})")
            return atom(f"({self.norm(t[2]).key()}){op}({self.norm(t[3]).key()})")
        if k == "un":
            if t[1] == "-":
                return -self.norm(t[2])
            if t[1] == "+":
                return self.norm(t[2])
            return atom(f"{t[1]}({self.norm(t[2]).key()})")
        if k == "attr":
            if t[2] in TRANSPARENT_ATTRS:
                return self.norm(t[1])
            return atom(f"{self.norm(t[1]).key()}.{t[2]}")
        if k == "call":
            f = t[1]
            name = self.fname(f)
            args = list(t[2])
            kws = list(t[3])
            if f[0] == "attr":
                if f[2] in TRANSPARENT_METHODS:
                    return self.norm(f[1])
                args = [f[1]] + args
            if name in ("asarray", "asanyarray") and f[0] == "global" and len(args) == 1 and not kws:
                return self.norm(args[0])  # container change only
            if name == "ppf" and any(kk == "q" for kk, _ in kws):  # ppf(q=x) == ppf(x)
                qv = [v for kk, v in kws if kk == "q"][0]
                kws = [(kk, v) for kk, v in kws if kk != "q"]
                args = args[:1] + [qv] + args[1:] if f[0] == "attr" else [qv] + args
            if name == "power" and len(args) == 2:
                return self.norm(("bin", "**", args[0], args[1]))
            if name == "sqrt" and len(args) == 1:
                return atom(f"sqrt({self.norm(args[0]).key()})")
            if name == "round":
                dec = [v for kk, v in kws if kk == "decimals"] + args[1:2]
                d = self.norm(dec[0]).key() if dec else "0"
                return atom(f"round[{d}]({self.norm(args[0]).key()})")
            akeys = [self.norm(a).key() for a in args]
            if name in COMMUTATIVE:
                akeys.sort()
            kkeys = sorted(f"{kk}={self.norm(v).key()}" for kk, v in kws if kk)
            return atom(f"{name}({', '.join(akeys + kkeys)})")
        if k == "sub":
            return atom(f"{self.norm(t[1]).key()}[{self._idx(t[2])}]")
        if k == "param":
            return atom(t[1])
        if k == "global":
            return atom(t[1].split(":")[-1])
        if k in ("tuple", "list"):
            return atom("[" + ", ".join(self.norm(x).key() for x in t[1]) + "]")
        if k == "fstr":
            return atom(ir.show(t))
        if k == "cmp":
            return atom(f"({self.norm(t[2]).key()} {t[1]} {self.norm(t[3]).key()})")
        if k == "phi":
            a, b = self.norm(t[2]), self.norm(t[3])
            if a == b:
                return a
            c = t[1]
            if c[0] == "cmp" and c[1] in (">", ">=", "<", "<="):
                # an explicit clamp: `x if x <= c else c` / `if x > c: x = c` is min(x, c); likewise max (equal at the boundary, so the
                # strictness of the test does not matter)
                l, r = self.norm(c[2]), self.norm(c[3])
                if {a, b} == {l, r} and a != b:
                    taken_is_left = (a == l)
                    name = {(">", True): "max", (">=", True): "max", ("<", True): "min", ("<=", True): "min",
                            (">", False): "min", (">=", False): "min", ("<", False): "max", ("<=", False): "max"}[(c[1], taken_is_left)]
                    return atom(f"{name}({', '.join(sorted([a.key(), b.key()]))})")
            return atom(f"phi({ir.show(t[1], maxdepth=4)}; {a.key()}; {b.key()})")
        if k == "ifexp":
            a, b = self.norm(t[2]), self.norm(t[3])
            if a == b:
                return a
            return atom(f"ifexp({ir.show(t[1], maxdepth=4)}; {a.key()}; {b.key()})")
        return atom(ir.show(t, maxdepth=6))

    def _idx(self, t):
        if t[0] == "slice":
            return ":".join("" if x == ("const", None) else self.norm(x).key() for x in t[1:])
        if t[0] == "tuple":
            return ", ".join(self._idx(x) for x in t[1])
        return self.norm(t).key()


def parse(expr):
    """Python expression text -> IR term over ('param', name) atoms; f(x) -> ('call', ('global', f), ..)."""
    node = ast.parse(expr, mode="eval").body

    def cv(n):
        if isinstance(n, ast.Constant):
            return ("const", n.value)
        if isinstance(n, ast.Name):
            return ("param", n.id)
        if isinstance(n, ast.BinOp):
            return ("bin", ir.BINOPS[type(n.op)], cv(n.left), cv(n.right))
        if isinstance(n, ast.UnaryOp):
            if isinstance(n.op, ast.USub) and isinstance(n.operand, ast.Constant):
                return ("const", -n.operand.value)
            return ("un", ir.UNOPS[type(n.op)], cv(n.operand))
        if isinstance(n, ast.Call):
            f = ("global", n.func.id) if isinstance(n.func, ast.Name) else ("attr", cv(n.func.value), n.func.attr)
            return ("call", f, tuple(cv(a) for a in n.args), tuple((k.arg, cv(k.value)) for k in n.keywords))
        if isinstance(n, ast.Attribute):
            return ("attr", cv(n.value), n.attr)
        if isinstance(n, ast.Subscript):
            return ("sub", cv(n.value), cv(n.slice))
        if isinstance(n, ast.Compare) and len(n.ops) == 1:
            return ("cmp", ir.CMPOPS[type(n.ops[0])], cv(n.left), cv(n.comparators[0]))
        if isinstance(n, (ast.Tuple, ast.List)):
            return ("list" if isinstance(n, ast.List) else "tuple", tuple(cv(x) for x in n.elts))
        raise AnalysisError(f"cannot parse spec expression: {ast.unparse(n)}")

    return cv(node)
