"""
C17: a unit whose dem / gop totals are revised DOWNWARDS between two versions is not discarded when the total turnout
does not go down (votes moved to a third candidate, or new third-party votes arrive with the correction).

VersionedDataHandler.compute_versioned_margin_estimate only tests np.diff(results_turnout) >= 0 and |batch_margin| <= 1.
The batch margin is (d_dem - d_gop) / d_weights with weights = dem + gop. When both parties go down (or one goes down and
the other stays), d_weights is negative and the quotient is again within [-1, 1] (|a - b| <= |a + b| for a, b of equal
sign), with the SIGN FLIPPED: a batch of "-100 dem votes" counts as a batch that is 100% dem.
The history is then interpolated as if it were regular (error_type "none", corrections not missing), and the imputed
margins between the two versions move away from both observed margins.

Run: cd /repo && PYTHONPATH=/repo/src /venv/bin/python _hunt/01_C17.py
"""
import logging
import sys
import warnings

import numpy as np
import pandas as pd

logging.disable(logging.CRITICAL)
warnings.filterwarnings("ignore")

from elexmodel.handlers.data.Estimandizer import Estimandizer  # noqa: E402
from elexmodel.handlers.data.VersionedData import VersionedDataHandler  # noqa: E402


def history(rows, fips):
    d = pd.DataFrame(rows, columns=["results_turnout", "results_dem", "results_gop", "percent_expected_vote"])
    d["postal_code"] = "AL"
    d["geographic_unit_fips"] = fips
    d["last_modified"] = pd.date_range("2024-11-05 20:00", periods=len(d), freq="3min", tz="America/New_York")
    # same derivation as VersionedDataHandler.get_versioned_results
    d, _ = Estimandizer().add_estimand_results(d, ["margin"], False)
    return d


# turnout (all candidates) never goes down; at the second version 100 dem votes are taken back (a correction) while 500
# votes for other candidates come in
irregular = history(
    [
        (1000, 600, 400, 40.0),  # margin +0.200
        (1500, 500, 400, 60.0),  # dem revised downwards by 100; margin +0.111
        (2500, 1000, 800, 100.0),  # final margin +0.111
    ],
    "01001",
)
# both parties revised downwards, turnout unchanged
irregular_2 = history(
    [
        (1000, 600, 400, 50.0),
        (1000, 500, 350, 50.0),
        (2000, 1000, 700, 100.0),
    ],
    "01003",
)
# control: the same kind of correction is recognised when the turnout column goes down with it
control = history([(1000, 600, 400, 40.0), (900, 500, 400, 36.0), (2500, 1000, 800, 100.0)], "01005")

data = pd.concat([irregular, irregular_2, control]).sort_values("last_modified")
vdh = VersionedDataHandler("2024-11-05_USA_G", "S", "county")
est = vdh.compute_versioned_margin_estimate(data=data)

failed = False
for fips, label in [("01001", "dem revised downwards, turnout up"), ("01003", "dem and gop revised downwards, turnout flat")]:
    unit = est[est.geographic_unit_fips == fips]
    kept = unit.est_correction.notnull().sum()
    print(f"{fips} ({label}): error_type={sorted(set(unit.error_type))}, {kept} of {len(unit)} corrections not missing")
    if kept > 0:
        failed = True
unit = est[est.geographic_unit_fips == "01005"]
print(f"01005 (control, turnout goes down too): error_type={sorted(set(unit.error_type))}, "
      f"{unit.est_correction.notnull().sum()} corrections not missing")

u = est[est.geographic_unit_fips == "01001"].set_index("percent_expected_vote")
print("imputed margin of 01001 at 40, 50, 59, 60 percent:", [round(float(u.est_margin[p]), 3) for p in (40, 50, 59, 60)])
print("observed margins at 40 and 60 percent: 0.2 and 0.111 -> the imputed 59-percent margin lies outside of both")

# these rows pass the filter that BootstrapElectionModel._extrapolate_unit_margin applies before averaging corrections
# (dist_to_observed < max_dist_to_observed and est_correction not null)
e = est[est.geographic_unit_fips.isin(["01001", "01003"])].copy()
e["dist_to_observed"] = (e.percent_expected_vote - e.nearest_observed_vote).abs()
usable = e[(e.dist_to_observed < 5) & e.est_correction.notnull()]
print(f"rows of the two irregular units that the extrapolation would average over: {len(usable)}")

if failed:
    print("VIOLATION (C17): a history with downward revisions of dem/gop is interpolated and yields corrections")
    sys.exit(1)
print("property holds")
sys.exit(0)
