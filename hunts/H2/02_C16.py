"""
C16: "per-state feature copies are created only for states that have reporting units" - but the intercept is zeroed
for EVERY state listed in states_for_separate_model (Featurizer.prepare_data), and BootstrapElectionModel exempts
1 + len(states_for_separate_model) leading columns from regularisation whether or not the copies exist.

A state that is listed but has no reporting unit yet (the normal situation early on election night) therefore gets
no per-state columns AND no intercept: the fitted and the predicted design disagree about that state's units, and
its predictions collapse (the turnout-factor prediction loses its intercept of about 1 and is clipped at the floor).
With only [intercept, baseline_normalized_margin] as columns the run crashes with an IndexError instead.

Metamorphic check through ModelClient: listing a state without reporting units must be a no-op (no copies are made).
Exit 1 when it is not.
"""
import copy
import sys

sys.path.insert(0, "/repo/_hunt")
from _common import *  # noqa

from elexmodel.client import ModelClient
from elexmodel.handlers.data.Featurizer import Featurizer

warnings.filterwarnings("ignore")
failures = []

# ---- 1. Featurizer alone -------------------------------------------------------------------------------------
toy = pd.DataFrame(
    {
        "postal_code": ["AA"] * 4 + ["BB"] * 3 + ["CC"] * 3,
        "x": [1.0, 2, 3, 4, 5, 6, 7, 8, 9, 10],
        "reporting": [1, 1, 1, 0, 1, 1, 0, 0, 0, 0],  # CC has no reporting unit
        "unit_category": ["expected"] * 10,
    }
)
f = Featurizer(["x"], [], states_for_separate_model=["BB", "CC"])
X = f.prepare_data(toy, center_features=False, scale_features=False, add_intercept=True)
print(X.assign(postal_code=toy.postal_code).to_string())
cc = X[toy.postal_code == "CC"]
if "x_CC" not in X.columns and (cc.intercept == 0).all():
    failures.append(
        "Featurizer: state CC has no reporting unit, gets no x_CC copy (as specified) but its intercept is still "
        "set to 0, so its units are predicted from the pooled slope without any intercept"
    )

# ---- 2. through the client -----------------------------------------------------------------------------------
df = va_data()
cfg = va_config()
df["baseline_normalized_margin"] = (df.baseline_dem - df.baseline_gop) / (df.baseline_dem + df.baseline_gop)
for o in cfg["2017-11-07_VA_G"]:
    o["features"].append("baseline_normalized_margin")
    o["states"] = ["VA", "XX"]
# the last 33 counties form a second state XX from which nothing has been reported yet
xx = df.geographic_unit_fips.iloc[100:].tolist()
df.loc[df.geographic_unit_fips.isin(xx), "postal_code"] = "XX"
va_ids = df[df.postal_code == "VA"].geographic_unit_fips.tolist()
rep = set(va_ids[:60])
cur = df[["postal_code", "geographic_unit_fips", "results_turnout", "results_dem", "results_gop"]].copy()
cur["percent_expected_vote"] = np.where(cur.geographic_unit_fips.isin(rep), 100, 0)
for c in ["results_turnout", "results_dem", "results_gop"]:
    cur.loc[~cur.geographic_unit_fips.isin(rep), c] = 0


def run(states, fixed_effects):
    mc = ModelClient()
    p = {"fit_margin_outlier_model": False, "fit_turnout_outlier_model": False, "B": 20, "lambda_": 1.0,
         "states_for_separate_model": states}
    return mc.get_estimates(
        cur.copy(), "2017-11-07_VA_G", "G", ["margin"], prediction_intervals=[0.9], percent_reporting_threshold=100,
        geographic_unit_type="county", raw_config=copy.deepcopy(cfg), preprocessed_data=df.copy(),
        pi_method="bootstrap", aggregates=["postal_code", "unit"], fixed_effects=fixed_effects,
        features=["baseline_normalized_margin"], save_output=[], model_parameters=p,
    )


base = run([], ["county_classification"])["state_data"].set_index("postal_code")
listed = run(["XX"], ["county_classification"])["state_data"].set_index("postal_code")
print("\nstate table, XX not listed:\n", base.to_string())
print("state table, XX listed in states_for_separate_model (XX has no reporting unit, so no copies are made):\n",
      listed.to_string())
t0, t1 = base.loc["XX", "pred_turnout"], listed.loc["XX", "pred_turnout"]
if not np.isclose(t0, t1, rtol=1e-6):
    failures.append(
        f"client: predicted turnout of the not-yet-reporting state XX changes from {t0:.0f} to {t1:.0f} "
        f"(x{t1 / t0:.2f}) and its margin from {base.loc['XX', 'pred_margin']:.4f} to "
        f"{listed.loc['XX', 'pred_margin']:.4f} merely by listing it"
    )
try:
    run(["XX"], [])
except IndexError as e:
    failures.append(f"client: without fixed effects the same request crashes: IndexError({e})")

if failures:
    print("\nC16 VIOLATED:")
    for f_ in failures:
        print(" -", f_)
    sys.exit(1)
print("C16 holds on this input")
sys.exit(0)
