import json, os, logging, warnings
import numpy as np, pandas as pd
ROOT = os.environ.get("ELEX_REPO", "/repo")
FIX = os.path.join(ROOT, "tests", "fixtures")
logging.disable(logging.CRITICAL)

def va_config():
    with open(os.path.join(FIX, "config", "2017-11-07_VA_G.json")) as f:
        return json.load(f)

def va_data(office="G", unit="county"):
    return pd.read_csv(os.path.join(FIX, "data", "2017-11-07_VA_G", office, f"data_{unit}.csv"),
        dtype={"geographic_unit_fips": str, "geographic_unit_type": str, "county_fips": str, "district": str})
