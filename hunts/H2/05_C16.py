"""
C16 (low severity, needs a naming coincidence): Featurizer.prepare_data recognises the dummy columns of a fixed effect
by name prefix only (Featurizer.py:144-148 `x.startswith(fe + "_")` over ALL columns of the frame, and
`_get_categories_for_fe` `x.startswith(fe)`).  Any other column of the data whose name starts with "<fixed effect>_"
is taken for a level of that fixed effect:
  * a numeric column / requested feature (e.g. fixed effect "region", feature "region_pop"): it becomes the level
    "absorbed by the intercept", so NO real level is dropped and the level dummies add up to the intercept column
    (design not identifiable);
  * a text column (e.g. "region_name"), or a second fixed effect called "region_type": TypeError.
Exit 1 when that happens.
"""
import sys

sys.path.insert(0, "/repo/_hunt")
from _common import *  # noqa

from elexmodel.handlers.data.Featurizer import Featurizer

df = pd.DataFrame(
    {
        "postal_code": ["AA"] * 10,
        "x": [1.0, 2, 3, 4, 5, 6, 7, 8, 9, 10],
        "region": ["n", "s", "w", "s", "n", "s", "n", "w", "n", "s"],
        "region_pop": [3.0, 1, 4, 1, 5, 9, 2, 6, 5, 3],
        "reporting": [1, 1, 1, 1, 1, 1, 0, 0, 0, 0],
        "unit_category": ["expected"] * 10,
    }
)
failures = []
f = Featurizer(["x", "region_pop"], ["region"])
X = f.prepare_data(df, center_features=False, scale_features=False, add_intercept=True)
fit = f.filter_to_active_features(X[:6])
print("level(s) absorbed by the intercept:", list(f.intercept_column))
print(fit.to_string())
levels = [c for c in fit.columns if c in ("region_n", "region_s", "region_w")]
if len(levels) == 3 and (fit[levels].sum(axis=1) == fit.intercept).all():
    failures.append(
        f"feature 'region_pop' was taken for a level of fixed effect 'region' and 'dropped' instead of a real level: "
        f"all 3 observed levels are fitted next to the intercept, rank {np.linalg.matrix_rank(fit.values.astype(float))}"
        f" < {fit.shape[1]} columns"
    )
for label, frame, fes in [
    ("unrelated text column 'region_name'", df.assign(region_name="abc"), ["region"]),
    ("second fixed effect 'region_type'", df.assign(region_type=["u", "r"] * 5), ["region", "region_type"]),
]:
    try:
        Featurizer(["x"], fes).prepare_data(frame, center_features=False, scale_features=False, add_intercept=True)
    except TypeError as e:
        failures.append(f"{label}: TypeError({e})")

if failures:
    print("\nC16 VIOLATED:")
    for f_ in failures:
        print(" -", f_)
    sys.exit(1)
print("C16 holds on this input")
sys.exit(0)
