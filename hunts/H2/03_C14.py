"""
C14: "whenever that minimum is met the run completes ... no arithmetic or solver failure can occur for any count at
or above the minimum" (all three estimators).

Bootstrap estimator, minimum = 10 reporting units.  With a fixed effect and lambda_=0 (a value the client explicitly
accepts, tests use it) a reporting unit that is the only one of its fixed-effect level has leverage h_ii = 1 in the
OLS fit, so its leave-one-out residual is 0/0 = NaN (OLSRegressionSolver.residuals divides by 1 - h_ii).  The NaN
reaches the strata quantile regressions and the run dies with ValueError("Array contains NaN or Infinity") although
the number of reporting units is at or above the minimum.  When rounding makes 1 - h_ii equal to +-1e-16 instead
of 0 the run "succeeds", but the leave-one-out residual of a normalised margin (which lives in [-1, 1]) is then a
ratio of rounding errors such as -14 or +76 and the state estimate is garbage (compare with lambda_=1e-6).
Exit 1 when either happens.
"""
import sys

sys.path.insert(0, "/repo/_hunt")
from _common import *  # noqa

from elexmodel.client import ModelClient, ModelNotEnoughSubunitsException

warnings.filterwarnings("ignore")
df = va_data()
cfg = va_config()
df["baseline_normalized_margin"] = (df.baseline_dem - df.baseline_gop) / (df.baseline_dem + df.baseline_gop)
for o in cfg["2017-11-07_VA_G"]:
    o["features"].append("baseline_normalized_margin")
ids = df.sample(frac=1, random_state=0).geographic_unit_fips.tolist()


def run(n, lambda_):
    rep = set(ids[:n])
    cur = df[["postal_code", "geographic_unit_fips", "results_turnout", "results_dem", "results_gop"]].copy()
    cur["percent_expected_vote"] = np.where(cur.geographic_unit_fips.isin(rep), 100, 0)
    for c in ["results_turnout", "results_dem", "results_gop"]:
        cur.loc[~cur.geographic_unit_fips.isin(rep), c] = 0
    p = {"fit_margin_outlier_model": False, "fit_turnout_outlier_model": False, "B": 20, "lambda_": lambda_}
    return ModelClient().get_estimates(
        cur, "2017-11-07_VA_G", "G", ["margin"], prediction_intervals=[0.9], percent_reporting_threshold=100,
        geographic_unit_type="county", raw_config=cfg, preprocessed_data=df.copy(), pi_method="bootstrap",
        aggregates=["postal_code", "unit"], fixed_effects=["county_classification"],
        features=["baseline_normalized_margin"], save_output=[], model_parameters=p,
    )


from elexsolver.OLSRegressionSolver import OLSRegressionSolver  # noqa

worst = {}
orig_residuals = OLSRegressionSolver.residuals


def spy_residuals(self, y, y_hat, loo=True, center=True):
    out = orig_residuals(self, y, y_hat, loo=loo, center=center)
    if loo and np.ndim(out) == 2 and out.shape[1] == 1:  # the initial fit, not the B bootstrap refits
        idx = np.where(np.abs(1 - self.hat_vals) < 1e-12)[0]
        if len(idx):
            worst["n_leverage_one"] = len(idx)
            worst["max_abs_loo_residual"] = max(worst.get("max_abs_loo_residual", 0), float(np.nanmax(np.abs(out[idx]))))
    return out


OLSRegressionSolver.residuals = spy_residuals

failures = []
garbage = []
for n in range(9, 26):
    counts = df.set_index("geographic_unit_fips").loc[ids[:n]].county_classification.value_counts()
    singletons = counts[counts == 1].index.tolist()
    worst.clear()
    try:
        r0 = run(n, 0)
        outcome = "completed"
        if worst.get("max_abs_loo_residual", 0) > 2.5:
            OLSRegressionSolver.residuals = orig_residuals
            r1 = run(n, 1e-6)
            OLSRegressionSolver.residuals = spy_residuals
            outcome += (
                f", but {worst['n_leverage_one']} unit(s) have leverage 1 and a leave-one-out residual of up to "
                f"{worst['max_abs_loo_residual']:.1f}; state pred_margin {r0['state_data'].pred_margin[0]:+.4f} "
                f"(lambda_=1e-6 gives {r1['state_data'].pred_margin[0]:+.4f})"
            )
            garbage.append(n)
    except ModelNotEnoughSubunitsException:
        outcome = "not-enough-subunits error" + ("" if n < 10 else "  (UNEXPECTED)")
    except Exception as e:  # noqa
        outcome = f"FAILED {type(e).__name__}: {e}"
        if n >= 10:
            failures.append((n, outcome, singletons))
    print(f"n={n:3d} levels with a single reporting unit={singletons}: {outcome}")

if failures or garbage:
    print("\nC14 VIOLATED: bootstrap estimate failed with an arithmetic error at n >= minimum (10) for n =",
          [f[0] for f in failures], "and silently used 0/0-type residuals for n =", garbage)
    sys.exit(1)
print("C14 holds on this input")
sys.exit(0)
