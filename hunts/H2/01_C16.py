"""
C16 (also touches C04): in the interval step of the conformal estimators (nonparametric and gaussian) the
lower/upper quantile regressions are fit on the TRAINING part of the reporting units only, but the Featurizer
decides which fixed-effect levels are "fitted" from ALL reporting units (training + calibration).

Consequences demonstrated here, through ModelClient.get_estimates on the VA county fixture with
fixed_effects=["county_classification"]:
  * the matrix handed to the solver contains dummy columns that are constant (all zero) on the fitting rows;
  * units (calibration and nonreporting) whose level was NOT seen in fitting get that level's indicator = 1 on an
    unidentified column instead of the equal share 1/(k+1);
  * the reported intervals differ from the ones obtained when the featurizer is told which rows are really fit.
Exit 1 when the violation occurs.
"""
import math
import sys

sys.path.insert(0, "/repo/_hunt")
from _common import *  # noqa

from elexmodel.client import ModelClient
from elexmodel.handlers.data import Featurizer as FeaturizerModule
from elexmodel.models import ConformalElectionModel as CEM

warnings.filterwarnings("ignore")
df = va_data()
cfg = va_config()
ALPHA = 0.9

# 45 counties from five regions plus ONE county of the region "nova" are fully reporting.
nova = df[df.county_classification == "nova"].geographic_unit_fips.tolist()
others = df[df.county_classification != "nova"].geographic_unit_fips.tolist()
reporting = set(others[:45] + nova[:1])
cur = df[["postal_code", "geographic_unit_fips", "results_turnout", "results_dem", "results_gop"]].copy()
cur["percent_expected_vote"] = np.where(cur.geographic_unit_fips.isin(reporting), 100, 0)
for c in ["results_turnout", "results_dem", "results_gop"]:
    cur.loc[~cur.geographic_unit_fips.isin(reporting), c] = 0

fits = []  # (tau, training design matrix)
holdouts = []  # frames returned by generate_holdout_data
orig_fit = CEM.ConformalElectionModel.fit_model
orig_hold = FeaturizerModule.Featurizer.generate_holdout_data


def spy_fit(self, model, df_X, df_y, tau, weights, normalize_weights):
    fits.append((tau, df_X.copy()))
    return orig_fit(self, model, df_X, df_y, tau, weights, normalize_weights)


def spy_hold(self, d):
    out = orig_hold(self, d)
    holdouts.append(out.copy())
    return out


CEM.ConformalElectionModel.fit_model = spy_fit
FeaturizerModule.Featurizer.generate_holdout_data = spy_hold


def run():
    fits.clear()
    holdouts.clear()
    mc = ModelClient()
    res = mc.get_estimates(
        cur.copy(), "2017-11-07_VA_G", "G", ["turnout"], prediction_intervals=[ALPHA],
        percent_reporting_threshold=100, geographic_unit_type="county", raw_config=cfg,
        preprocessed_data=df.copy(), pi_method="nonparametric", aggregates=["postal_code", "unit"],
        fixed_effects=["county_classification"], features=[], save_output=[],
        model_parameters={"fit_margin_outlier_model": False, "fit_turnout_outlier_model": False},
    )
    return mc, res


mc, res = run()
# fits: [median fit (all reporting units), lower fit, upper fit]; holdouts: [point-pred nonreporting, calibration,
# nonreporting]
x_train = fits[1][1]
x_nonrep = holdouts[2]
cal = mc.all_conformalization_data_unit_dict[ALPHA]["turnout"][1]
print(f"reporting units: {len(reporting)}, interval training rows: {len(x_train)}, calibration rows: {len(cal)}")
print("the single reporting nova county is in the calibration set:", (cal.county_classification == "nova").any())

failures = []
dummy_cols = [c for c in x_train.columns if c.startswith("county_classification_")]
constant = [c for c in dummy_cols if x_train[c].nunique() == 1]
if constant:
    failures.append(f"dummy column(s) constant on the fitting rows of the interval regressions: {constant}")
rank = np.linalg.matrix_rank(x_train.values.astype(float))
if rank < x_train.shape[1]:
    failures.append(f"interval design matrix is rank deficient: rank {rank} < {x_train.shape[1]} columns")

# nonreporting nova counties: level not seen in the fitting rows -> should get 1/(k+1) on each of the k fitted levels
unit = res["unit_data"]
nonrep_units = mc.results_handler.nonreporting_units
nova_rows = (nonrep_units.county_classification == "nova").values
seen_levels = [c for c in dummy_cols if c not in constant]
k = len(seen_levels)
got = x_nonrep[nova_rows][dummy_cols].drop_duplicates()
print("design rows of the nonreporting nova counties (interval step):")
print(got.to_string(index=False))
if "county_classification_nova" in constant and not np.allclose(got[seen_levels].values, 1 / (k + 1)):
    failures.append(
        f"nonreporting units of the level unseen in fitting got indicator 1 on the unfitted column "
        f"instead of the equal share 1/(k+1)={1 / (k + 1):.3f} on the {k} fitted levels"
    )

# what the numbers would be if the featurizer was told which rows are actually used for fitting
observed = unit.set_index("geographic_unit_fips")[[f"lower_{ALPHA}_turnout", f"upper_{ALPHA}_turnout"]].copy()
orig_bounds = CEM.ConformalElectionModel.get_unit_prediction_interval_bounds
orig_prepare = FeaturizerModule.Featurizer.prepare_data
state = {}


def bounds(self, reporting_units, nonreporting_units, conf_frac, alpha, estimand):
    state["train_rows"] = max(math.floor(self.n_train * conf_frac), 1)
    try:
        return orig_bounds(self, reporting_units, nonreporting_units, conf_frac, alpha, estimand)
    finally:
        state.pop("train_rows")


def prepare(self, d, **kw):
    if "train_rows" in state:
        d = d.copy()
        d["reporting"] = np.r_[np.ones(state["train_rows"], dtype=int), np.zeros(len(d) - state["train_rows"], dtype=int)]
    return orig_prepare(self, d, **kw)


CEM.ConformalElectionModel.get_unit_prediction_interval_bounds = bounds
FeaturizerModule.Featurizer.prepare_data = prepare
mc2, res2 = run()
expected = res2["unit_data"].set_index("geographic_unit_fips")[[f"lower_{ALPHA}_turnout", f"upper_{ALPHA}_turnout"]]
cmp = observed.join(expected, lsuffix="_observed", rsuffix="_aligned").loc[nova[1:]]
print("intervals of the nonreporting nova counties, as reported vs with fitting rows = training rows:")
print(cmp.to_string())
n_diff = int((~np.isclose(observed.values, expected.loc[observed.index].values)).any(axis=1).sum())
print("units whose reported interval changes:", n_diff, "of", len(observed))
s1 = res["state_data"][[f"lower_{ALPHA}_turnout", f"upper_{ALPHA}_turnout"]].iloc[0].tolist()
s2 = res2["state_data"][[f"lower_{ALPHA}_turnout", f"upper_{ALPHA}_turnout"]].iloc[0].tolist()
print("state interval reported:", s1, " aligned:", s2)
if n_diff:
    failures.append(f"{n_diff} unit intervals differ from the aligned featurization; state interval {s1} vs {s2}")

if failures:
    print("\nC16 VIOLATED:")
    for f_ in failures:
        print(" -", f_)
    sys.exit(1)
print("C16 holds on this input")
sys.exit(0)
