"""
C14, last sentence: "Duplicate reporting unit ids are rejected with a client error."

The duplicate check in ModelClient.get_estimates (client.py:441-444) only looks at the reporting units that are left
AFTER CombinedDataHandler.get_units removed the non-modelled units, and that removal is done by id
(CombinedData.py:110-112).  If the feed contains a fully reporting unit twice and ONE of the two rows is classified
as non-modelled (here: a doubled count -> turnout factor >= 2), both rows disappear from the reporting units, the
check sees nothing, the run completes, and the votes of the other (plausible) row are silently replaced by the odd
row in every table.  Exit 1 when the duplicate is not rejected.
"""
import sys

sys.path.insert(0, "/repo/_hunt")
from _common import *  # noqa

from elexmodel.client import ModelClient, ModelClientException

warnings.filterwarnings("ignore")
df = va_data()
cfg = va_config()
ids = df.geographic_unit_fips.tolist()
rep = set(ids[:40])
cur = df[["postal_code", "geographic_unit_fips", "results_turnout", "results_dem", "results_gop"]].copy()
cur["percent_expected_vote"] = np.where(cur.geographic_unit_fips.isin(rep), 100, 0)
for c in ["results_turnout", "results_dem", "results_gop"]:
    cur.loc[~cur.geographic_unit_fips.isin(rep), c] = 0


def run(current):
    return ModelClient().get_estimates(
        current.reset_index(drop=True), "2017-11-07_VA_G", "G", ["turnout"], prediction_intervals=[0.7],
        percent_reporting_threshold=100, geographic_unit_type="county", raw_config=cfg, preprocessed_data=df.copy(),
        pi_method="nonparametric", aggregates=["postal_code", "unit"], save_output=[],
        model_parameters={"fit_margin_outlier_model": False, "fit_turnout_outlier_model": False},
    )


dup_id = ids[3]
row = cur[cur.geographic_unit_fips == dup_id]
print("unit", dup_id, "reports", int(row.results_turnout.iloc[0]), "votes at 100 percent")

# control: an exact duplicate IS rejected
try:
    run(pd.concat([cur, row]))
    print("exact duplicate: NOT rejected")
except ModelClientException as e:
    print("exact duplicate: rejected ->", e)

# the same unit a second time, also at 100 percent, with a tripled count
odd = row.assign(results_turnout=row.results_turnout * 3, results_dem=row.results_dem * 3, results_gop=row.results_gop * 3)
try:
    res = run(pd.concat([cur, odd]))
except ModelClientException as e:
    print("duplicate with a different count: rejected ->", e)
    print("C14 holds on this input")
    sys.exit(0)
u = res["unit_data"]
print("duplicate with a different count: NOT rejected, run completed")
print(u[u.geographic_unit_fips == dup_id].to_string())
print(res["state_data"].to_string())
print(f"\nC14 VIOLATED: unit {dup_id} is in the feed twice as fully reporting, no client error is raised; the row with "
      f"{int(row.results_turnout.iloc[0])} votes vanished and the state total contains the other row instead")
sys.exit(1)
