"""
C06 (bootstrap estimator, "for all elections and feeds"): in a multi-state election in which no contest has two
reporting units yet (e.g. the first 12 counties that are complete lie in 12 different states) the bootstrap
model cannot produce any interval at all: BootstrapElectionModel._sample_test_epsilon only special-cases
"exactly one contest with a non-zero random effect"; with zero such contests it computes the variance / correlation
of an empty set (NaN) and numpy's multivariate_normal fails with LinAlgError.

run: cd /repo && PYTHONPATH=/repo/src /venv/bin/python _hunt/01_C06.py
exit 1 = violation reproduced, exit 0 = intervals were produced and are ordered
"""
import json
import logging
import os
import sys
import warnings

import numpy as np
import pandas as pd

warnings.filterwarnings("ignore")
logging.disable(logging.CRITICAL)
ROOT = os.environ.get("ELEX_REPO", "/repo")
FIX = os.path.join(ROOT, "tests", "fixtures")
from elexmodel.client import ModelClient  # noqa: E402

ELECTION = "2017-11-07_VA_G"
with open(os.path.join(FIX, "config", f"{ELECTION}.json")) as f:
    config = json.load(f)
pre = pd.read_csv(
    os.path.join(FIX, "data", ELECTION, "G", "data_county.csv"),
    dtype={"geographic_unit_fips": str, "county_fips": str},
).reset_index(drop=True)

# a 12-state election: the VA counties are dealt out to 12 states (11 counties each)
states = [f"S{i:02d}" for i in range(12)]
pre["postal_code"] = [states[i % 12] for i in range(len(pre))]
config[ELECTION][1]["states"] = states

# the feed: the first county of every state is complete, nothing else has been counted (12 reporting units >= the
# minimum of 10, but no state has two of them)
feed = pre[["postal_code", "geographic_unit_fips", "results_dem", "results_gop", "results_turnout"]].copy()
feed["percent_expected_vote"] = 0
feed.loc[:11, "percent_expected_vote"] = 100
feed.loc[12:, ["results_dem", "results_gop", "results_turnout"]] = 0

levels = [0.5, 0.9]
try:
    result = ModelClient().get_estimates(
        feed,
        ELECTION,
        "G",
        ["margin"],
        levels,
        100,
        "county",
        raw_config=config,
        preprocessed_data=pre.copy(),
        save_output=[],
        aggregates=["postal_code", "unit"],
        pi_method="bootstrap",
        features=["baseline_normalized_margin"],
        model_parameters={"B": 20, "fit_margin_outlier_model": False, "fit_turnout_outlier_model": False},
    )
except Exception as e:  # noqa
    print(f"VIOLATION: no intervals at all, the bootstrap model raised {type(e).__name__}: {e}")
    sys.exit(1)

state = result["state_data"]
ok = True
for a in levels:
    ok &= bool(((state[f"lower_{a}_margin"] < state.pred_margin) & (state.pred_margin < state[f"upper_{a}_margin"])).all())
print(state.to_string())
if not ok:
    print("VIOLATION: state intervals are not ordered / finite")
    sys.exit(1)
print("OK: intervals were produced")
sys.exit(0)
