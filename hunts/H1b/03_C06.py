"""
C06 side finding (bootstrap estimator, accepted model parameter states_for_separate_model): if a state that gets its
own slope has exactly ONE reporting unit, the default run (lambda_ not given, so it is cross-validated) always dies
with LinAlgError("Singular matrix"): in BootstrapElectionModel.cv_lambda the fold that holds that unit out trains on
rows whose `baseline_normalized_margin_<state>` column is all zero, and that column is excluded from the ridge
penalty (n_feat_ignore_reg = 1 + len(states_for_separate_model)).  With 2-3 reporting units it still happens whenever
the shuffle puts them into the same fold.  (Different from the known "state without reporting units" IndexError.)

run: cd /repo && PYTHONPATH=/repo/src /venv/bin/python _hunt/03_C06.py
exit 1 = violation reproduced
"""
import json
import logging
import os
import sys
import warnings

import numpy as np
import pandas as pd

warnings.filterwarnings("ignore")
logging.disable(logging.CRITICAL)
ROOT = os.environ.get("ELEX_REPO", "/repo")
FIX = os.path.join(ROOT, "tests", "fixtures")
from elexmodel.client import ModelClient  # noqa: E402

ELECTION = "2017-11-07_VA_G"
with open(os.path.join(FIX, "config", f"{ELECTION}.json")) as f:
    config = json.load(f)
pre = pd.read_csv(
    os.path.join(FIX, "data", ELECTION, "G", "data_county.csv"),
    dtype={"geographic_unit_fips": str, "county_fips": str},
).reset_index(drop=True)
# two states: every fourth county belongs to MD
pre.loc[pre.index % 4 == 0, "postal_code"] = "MD"
config[ELECTION][1]["states"] = ["VA", "MD"]

feed = pre[["postal_code", "geographic_unit_fips", "results_dem", "results_gop", "results_turnout"]].copy()
feed["percent_expected_vote"] = 0
reporting = list(feed.index[feed.postal_code == "VA"][:30]) + list(feed.index[feed.postal_code == "MD"][:1])
feed.loc[reporting, "percent_expected_vote"] = 100
feed.loc[feed.index.difference(reporting), ["results_dem", "results_gop", "results_turnout"]] = 0

try:
    res = ModelClient().get_estimates(
        feed,
        ELECTION,
        "G",
        ["margin"],
        [0.9],
        100,
        "county",
        raw_config=config,
        preprocessed_data=pre.copy(),
        save_output=[],
        aggregates=["postal_code", "unit"],
        pi_method="bootstrap",
        features=["baseline_normalized_margin"],
        model_parameters={
            "B": 20,
            "states_for_separate_model": ["MD"],
            "fit_margin_outlier_model": False,
            "fit_turnout_outlier_model": False,
        },
    )
except Exception as e:  # noqa
    print(f"VIOLATION: 31 reporting units (30 VA, 1 MD) but no estimate: {type(e).__name__}: {e}")
    sys.exit(1)
print(res["state_data"].to_string())
print("OK")
sys.exit(0)
