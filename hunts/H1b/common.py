import json, os, sys, logging, warnings
import numpy as np
import pandas as pd

ROOT = os.environ.get("ELEX_REPO", "/repo")
FIX = os.path.join(ROOT, "tests", "fixtures")
logging.disable(logging.CRITICAL)

from elexmodel.client import ModelClient  # noqa
from elexmodel.handlers.data.LiveData import MockLiveDataHandler  # noqa

ELECTION = "2017-11-07_VA_G"


def load_config():
    with open(os.path.join(FIX, "config", f"{ELECTION}.json")) as f:
        return json.load(f)


def load_pre(office, gut):
    return pd.read_csv(
        os.path.join(FIX, "data", ELECTION, office, f"data_{gut}.csv"),
        dtype={"geographic_unit_fips": str, "geographic_unit_type": str, "county_fips": str, "district": str},
    )


def make_feed(pre, office, gut, estimands, n_reporting, seed=1, unexpected=0):
    h = MockLiveDataHandler(ELECTION, office, gut, estimands, data=pre.copy(), unexpected_units=unexpected)
    h.shuffle(seed=seed)
    return h.get_n_fully_reported(n_reporting).reset_index(drop=True)


def raw_feed(pre, n_reporting, seed=1, partial_frac=0.5, pcts=(10, 50, 60, 97, 99), unexpected=0, gut="county"):
    """feed with dem/gop/turnout counts; first n (shuffled) fully reporting, some of the rest partially counted"""
    rng = np.random.default_rng(seed)
    d = pre[["postal_code", "geographic_unit_fips", "results_dem", "results_gop", "results_turnout"]].copy()
    d = d.sample(frac=1, random_state=seed).reset_index(drop=True)
    d["percent_expected_vote"] = 0
    d.loc[: n_reporting - 1, "percent_expected_vote"] = 100
    rest = d.index[n_reporting:]
    part = rng.choice(rest, size=int(len(rest) * partial_frac), replace=False) if len(rest) else []
    pct = rng.choice(pcts, size=len(part))
    full0 = np.setdiff1d(rest, part)
    for col in ["results_dem", "results_gop", "results_turnout"]:
        d[col] = d[col].astype(float)
        d.loc[part, col] = np.floor(d.loc[part, col] * pct / 100)
        d.loc[full0, col] = 0.0
    d.loc[part, "percent_expected_vote"] = pct
    if unexpected:
        ex = d.iloc[:unexpected].copy()
        ex["geographic_unit_fips"] = ex["geographic_unit_fips"] + [str(i) for i in range(unexpected)]
        d = pd.concat([d, ex]).reset_index(drop=True)
    return d
