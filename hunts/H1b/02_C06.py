"""
C06 (bootstrap estimator): "for two requested levels a < b the b-interval contains the a-interval at unit and
aggregate level".  At the contest level this is broken by the race-call / stop-list post-processing in
BootstrapElectionModel.get_aggregate_prediction_intervals: a bound is only replaced by the +-0.005 threshold when it
lies on the wrong side of ZERO, a bound between zero and the threshold is left alone.  So for a contest called for the
LHS party the 70% lower bound stays at +0.0027 while the (wider) 90% lower bound, which was negative, is raised to
+0.005: the 90% interval no longer contains the 70% interval, and the 70% interval violates the model's own rule that
the interval of a called contest is at least lhs_called_threshold.  The same happens at the upper bound of a contest
called for the RHS party and at both bounds of a stop-listed contest.

run: cd /repo && PYTHONPATH=/repo/src /venv/bin/python _hunt/02_C06.py
exit 1 = violation reproduced
"""
import json
import logging
import os
import sys
import warnings

import numpy as np
import pandas as pd

warnings.filterwarnings("ignore")
logging.disable(logging.CRITICAL)
ROOT = os.environ.get("ELEX_REPO", "/repo")
FIX = os.path.join(ROOT, "tests", "fixtures")
from elexmodel.client import ModelClient  # noqa: E402

ELECTION = "2017-11-07_VA_G"
with open(os.path.join(FIX, "config", f"{ELECTION}.json")) as f:
    config = json.load(f)
pre = pd.read_csv(
    os.path.join(FIX, "data", ELECTION, "G", "data_county.csv"),
    dtype={"geographic_unit_fips": str, "county_fips": str},
)

# make the race close, so that the state intervals straddle zero: move votes from dem to gop
pre["results_dem"] = (pre.results_dem * 0.95).round()
pre["results_gop"] = (pre.results_gop * 1.09).round()

# feed: 50 complete counties, the others have not counted anything
feed = pre[["postal_code", "geographic_unit_fips", "results_dem", "results_gop", "results_turnout"]].copy()
feed = feed.sample(frac=1, random_state=2).reset_index(drop=True)
feed["percent_expected_vote"] = 0
feed.loc[:49, "percent_expected_vote"] = 100
feed.loc[50:, ["results_dem", "results_gop", "results_turnout"]] = 0

levels = [0.3, 0.5, 0.7, 0.9, 0.99]


def mirrored(df):
    """the same election with the two parties swapped"""
    df = df.copy()
    for a, b in [("results_dem", "results_gop"), ("baseline_dem", "baseline_gop")]:
        if a in df.columns:
            df[a], df[b] = df[b].copy(), df[a].copy()
    return df


def run(mirror=False, **calls):
    res = ModelClient().get_estimates(
        mirrored(feed) if mirror else feed,
        ELECTION,
        "G",
        ["margin"],
        levels,
        100,
        "county",
        raw_config=config,
        preprocessed_data=mirrored(pre) if mirror else pre.copy(),
        save_output=[],
        aggregates=["postal_code", "unit"],
        pi_method="bootstrap",
        features=["baseline_normalized_margin"],
        model_parameters={"B": 50, "fit_margin_outlier_model": False, "fit_turnout_outlier_model": False},
        **calls,
    )
    return res["state_data"].iloc[0]


def not_nested(row):
    out = []
    for a, b in zip(levels[:-1], levels[1:]):
        la, lb, ua, ub = row[f"lower_{a}_margin"], row[f"lower_{b}_margin"], row[f"upper_{a}_margin"], row[f"upper_{b}_margin"]
        if lb > la + 1e-12 or ub < ua - 1e-12:
            out.append(f"   level {b}: [{lb:.5f}, {ub:.5f}] does not contain level {a}: [{la:.5f}, {ua:.5f}]")
    return out


bad = False
base = run()
print("no call:", {a: (round(base[f"lower_{a}_margin"], 5), round(base[f"upper_{a}_margin"], 5)) for a in levels}, "pred", round(base.pred_margin, 5))
assert not not_nested(base), "intervals are not nested even without a call"
for name, calls in [
    ("called for LHS", {"lhs_called_contests": ["VA"]}),
]:
    row = run(**calls)
    print(name + ":", {a: (round(row[f"lower_{a}_margin"], 5), round(row[f"upper_{a}_margin"], 5)) for a in levels}, "pred", round(row.pred_margin, 5))
    msgs = not_nested(row)
    if msgs:
        bad = True
        print(f"VIOLATION ({name}): wider level does not contain the narrower one")
        print("\n".join(msgs))
    if "lhs_called_contests" in calls:
        low = [a for a in levels if row[f"lower_{a}_margin"] < 0.005 - 1e-12]
        if low:
            bad = True
            print(f"VIOLATION ({name}): lower bound below lhs_called_threshold=0.005 at levels {low}")
    if "rhs_called_contests" in calls:
        high = [a for a in levels if row[f"upper_{a}_margin"] > -0.005 + 1e-12]
        if high:
            bad = True
            print(f"VIOLATION ({name}): upper bound above rhs_called_threshold=-0.005 at levels {high}")
sys.exit(1 if bad else 0)
