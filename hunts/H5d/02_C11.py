"""
C11 (strict reading, numerically negligible): an unexpected unit must leave every other number in every table unchanged.

With the bootstrap estimator the tables of groups the new unit does NOT belong to change in the last bits (relative
difference about 1e-16): the group sums are computed as  aggregate_indicator.T @ values  over a dummy matrix that has
one more column when the unexpected unit creates a new group, and BLAS then sums the (unchanged) columns in a different
order. The conformal estimators (groupby sums) are bit-for-bit stable. Exits 1 when a difference is observed,
0 otherwise (the effect depends on the BLAS build).
"""
import json
import logging
import os
import sys

import numpy as np
import pandas as pd

logging.disable(logging.CRITICAL)
ROOT = os.environ.get("ELEX_REPO", "/repo")
FIX = os.path.join(ROOT, "tests", "fixtures")
ELECTION = "2017-11-07_VA_G"
with open(os.path.join(FIX, "config", f"{ELECTION}.json")) as f:
    CONFIG = json.load(f)
for sub in CONFIG[ELECTION]:
    sub["states"] = ["VA", "NC", "MD"]

from elexmodel.client import ModelClient  # noqa: E402

pre = pd.read_csv(
    os.path.join(FIX, "data", ELECTION, "G", "data_precinct.csv"),
    dtype={"geographic_unit_fips": str, "county_fips": str},
)
# a three-state election: whole counties are relabelled
counties = sorted(pre.county_fips.unique())
rng = np.random.default_rng(0)
pre["postal_code"] = pre.county_fips.map(dict(zip(counties, np.array(["VA", "NC", "MD"])[rng.integers(0, 3, len(counties))])))

feed = pre.sample(frac=1, random_state=4).reset_index(drop=True)[
    ["postal_code", "geographic_unit_fips", "results_turnout", "results_dem", "results_gop"]
].copy()
feed["percent_expected_vote"] = 100
feed.loc[600:, ["results_turnout", "results_dem", "results_gop"]] = 0
feed.loc[600:, "percent_expected_vote"] = 0


def run(current):
    return ModelClient().get_estimates(
        current,
        ELECTION,
        "G",
        ["margin"],
        prediction_intervals=[0.9],
        percent_reporting_threshold=100,
        geographic_unit_type="precinct",
        raw_config=json.loads(json.dumps(CONFIG)),
        preprocessed_data=pre,
        pi_method="bootstrap",
        features=["baseline_normalized_margin"],
        aggregates=["postal_code", "county_fips", "unit"],
        save_output=[],
        model_parameters={"B": 15, "fit_margin_outlier_model": False, "fit_turnout_outlier_model": False},
    )


before = run(feed)
extra = pd.DataFrame(
    [{"postal_code": "NC", "geographic_unit_fips": "51999_1", "results_turnout": 1000, "results_dem": 600, "results_gop": 350,
      "percent_expected_vote": 100}]
)
after = run(pd.concat([feed, extra], ignore_index=True))

changed = []
for table, keys in [("state_data", ["postal_code"]), ("county_data", ["postal_code", "county_fips"])]:
    m = before[table].merge(after[table], on=keys, suffixes=("_before", "_after"))
    for col in [c for c in before[table].columns if c not in keys]:
        diff = m[m[f"{col}_before"] != m[f"{col}_after"]]
        for _, row in diff.iterrows():
            key = tuple(row[k] for k in keys)
            if key in [("NC",), ("NC", "51999")]:
                continue  # the groups the new unit belongs to
            changed.append((table, key, col, row[f"{col}_before"], row[f"{col}_after"]))

for c in changed[:10]:
    print(c)
if changed:
    rel = max(abs(a - b) / max(abs(a), 1e-300) for *_, a, b in changed)
    print(f"C11 (strict): {len(changed)} numbers of groups that do not contain the new unit changed, largest relative change {rel:.1e}")
    sys.exit(1)
print("no other number changed")
