import json
import logging
import os
import warnings

import numpy as np
import pandas as pd

logging.disable(logging.CRITICAL)
warnings.filterwarnings("ignore", category=FutureWarning)

ROOT = os.environ.get("ELEX_REPO", "/repo")
FIX = os.path.join(ROOT, "tests", "fixtures")
ELECTION = "2017-11-07_VA_G"


def config():
    with open(os.path.join(FIX, "config", f"{ELECTION}.json")) as f:
        return json.load(f)


def load(office, unit_type):
    return pd.read_csv(
        os.path.join(FIX, "data", ELECTION, office, f"data_{unit_type}.csv"),
        dtype={"geographic_unit_fips": str, "geographic_unit_type": str, "county_fips": str, "district": str},
    )


def feed(df, n_reporting, seed=0, estimands=("turnout",), partial=None):
    """feed frame: first n_reporting (after shuffle) at 100 percent, the rest at 0 with 0 votes"""
    d = df.sample(frac=1, random_state=seed).reset_index(drop=True)
    cols = ["postal_code", "geographic_unit_fips", "results_turnout", "results_dem", "results_gop"]
    out = d[cols].copy()
    out["percent_expected_vote"] = 100
    out.loc[n_reporting:, ["results_turnout", "results_dem", "results_gop"]] = 0
    out.loc[n_reporting:, "percent_expected_vote"] = 0
    return out


def run(client, cur, pre, office, unit_type, estimands, **kw):
    from elexmodel.client import ModelClient

    if client is None:
        client = ModelClient()
    kw.setdefault("save_output", [])
    pis = kw.pop("prediction_intervals", [0.9])
    thr = kw.pop("percent_reporting_threshold", 100)
    mp = kw.pop("model_parameters", {})
    cfg = kw.pop("cfg", None) or config()
    return client.get_estimates(
        cur.copy(),
        ELECTION,
        office,
        list(estimands),
        prediction_intervals=pis,
        percent_reporting_threshold=thr,
        geographic_unit_type=unit_type,
        raw_config=cfg,
        preprocessed_data=pre.copy(),
        model_parameters=mp,
        **kw,
    )


def multistate(pre, states=("VA", "NC", "MD"), seed=0):
    """relabel units into several states (whole counties stay together)"""
    pre = pre.copy()
    counties = sorted(pre.county_fips.unique())
    rng = np.random.default_rng(seed)
    m = {c: states[i] for c, i in zip(counties, rng.integers(0, len(states), len(counties)))}
    pre["postal_code"] = pre.county_fips.map(m)
    return pre


def config_states(states):
    cfg = config()
    for sub in cfg[ELECTION]:
        sub["states"] = list(states)
    return cfg
