from common import *
import itertools, traceback

def diff_tables(a, b, label=""):
    """return list of (table, description) differences between result dicts"""
    out = []
    for k in a:
        if k not in b:
            out.append((k, "missing table")); continue
        ta, tb = a[k].reset_index(drop=True), b[k].reset_index(drop=True)
        keycols = [c for c in ["postal_code", "district", "county_classification", "county_fips", "geographic_unit_fips"] if c in ta.columns]
        m = ta.merge(tb, on=keycols, how="outer", suffixes=("_a", "_b"), indicator=True)
        for _, row in m.iterrows():
            key = tuple(row[c] for c in keycols)
            if row["_merge"] != "both":
                out.append((k, key, row["_merge"])); continue
            for c in ta.columns:
                if c in keycols: continue
                va, vb = row[c + "_a"], row[c + "_b"]
                if isinstance(va, float) and isinstance(vb, float) and np.isnan(va) and np.isnan(vb): continue
                if va != vb:
                    out.append((k, key, c, va, vb))
    return out

def scenario(office, unit_type, pi, estimands, aggregates, extra_rows, n=60, seed=3, mp=None, features=None, fixed_effects=None, mutate=None):
    pre = load(office, unit_type)
    cur = feed(pre, n, seed=seed)
    # give some nonreporting units partial counts
    rng = np.random.default_rng(seed)
    nr = cur.index[cur.percent_expected_vote == 0]
    sel = rng.choice(nr, size=len(nr)//2, replace=False)
    base = pre.set_index("geographic_unit_fips").loc[cur.loc[sel, "geographic_unit_fips"]]
    frac = rng.uniform(0.1, 0.95, len(sel))
    for c in ["turnout", "dem", "gop"]:
        cur.loc[sel, f"results_{c}"] = (base[f"results_{c}"].values * frac).round()
    cur.loc[sel, "percent_expected_vote"] = (frac * 100).round()
    mpp = {"fit_margin_outlier_model": False, "fit_turnout_outlier_model": False}
    if pi == "bootstrap":
        mpp.update({"B": 20})
    mpp.update(mp or {})
    kw = dict(aggregates=aggregates, pi_method=pi, model_parameters=mpp)
    if features: kw["features"] = features
    if fixed_effects: kw["fixed_effects"] = fixed_effects
    a = run(None, cur, pre, office, unit_type, estimands, **kw)
    cur2 = cur.copy()
    if extra_rows is not None:
        cur2 = pd.concat([cur2, pd.DataFrame(extra_rows)], ignore_index=True)
    if mutate is not None:
        cur2 = mutate(cur2, pre)
    b = run(None, cur2, pre, office, unit_type, estimands, **kw)
    return a, b, cur, cur2


def U(fips, pc="VA", t=1000, d=600, g=350, pev=100):
    return {"postal_code": pc, "geographic_unit_fips": fips, "results_turnout": t, "results_dem": d, "results_gop": g, "percent_expected_vote": pev}

def expect_c11(a, b, v):
    bad = []
    for d in diff_tables(a, b):
        if len(d) == 3 and d[2] == "right_only":
            continue
        if len(d) == 5:
            k, key, c, va, vb = d
            est = c.split("_")[-1]
            if est in v and abs((vb - va) - v[est]) < 1e-9:
                continue
        bad.append(d)
    return bad
