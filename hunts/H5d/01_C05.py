"""
C05: with no features / fixed effects every nonreporting unit must be predicted as
    round(max((baseline + 1) * (1 + m), partial count)),   m = baseline-weighted median of the reporting residuals.

Counter-example (unique weighted median, legitimate integer vote counts): 12 reporting counties lost votes
(-20% .. -9%), 12 gained votes (+9% .. +20%), all have the same baseline except that one of the gaining counties has
ONE more baseline vote. The gaining side is therefore heavier, no partial sum of the weights is exactly one half, and
the weighted median is the smallest gain, m = +0.09. As soon as that one vote is less than about 2e-7 of the total
weight the model returns m = 0.0 instead ("no swing"), i.e. every outstanding county is predicted 9% too low. With a
smaller baseline (same structure) the answer is right.

Cause: ConformalElectionModel.fit_model() -> elexsolver QuantileRegressionSolver.fit(normalize_weights=True) divides
the weights by their sum and solves the dual LP (box |x_i| <= w_i/2, sum x_i = 0) with HiGHS, whose absolute primal
feasibility tolerance is 1e-7. When sum(w_i : r_i > 0) and sum(w_i : r_i < 0) differ by less than that, the unconstrained
optimum x_i = sign(r_i) * w_i / 2 counts as feasible, the equality constraint is reported as not binding and its dual
(= the intercept = m) is 0. Exits 1 when the violation is observed.
"""
import json
import logging
import os
import sys

import numpy as np
import pandas as pd

logging.disable(logging.CRITICAL)
ROOT = os.environ.get("ELEX_REPO", "/repo")
with open(os.path.join(ROOT, "tests", "fixtures", "config", "2017-11-07_VA_G.json")) as f:
    CONFIG = json.load(f)

from elexmodel.client import ModelClient  # noqa: E402


def weighted_median(r, w):
    o = np.argsort(r, kind="stable")
    r, w = r[o], w[o].astype(float)
    c = np.cumsum(w)
    half = c[-1] / 2
    assert not np.any(c[:-1] == half), "weighted median is not unique"
    return r[int(np.searchsorted(c, half, side="left"))]


def build(big):
    change = [-0.20 + 0.01 * i for i in range(12)] + [0.09 + 0.01 * i for i in range(12)]
    base = [big] * 24
    base[20] += 1  # one extra baseline vote on the gaining side
    n_rep = len(base)
    base += [50_000, 120_000, 999]  # three outstanding counties, the last one partially counted
    change += [0, 0, 0]
    ids = [str(51001 + 2 * i) for i in range(len(base))]
    base = np.array(base)
    results = np.round((base + 1) * (1 + np.array(change))).astype(int)
    pre = pd.DataFrame(
        {
            "postal_code": "VA",
            "geographic_unit_fips": ids,
            "county_fips": ids,
            "county_classification": "x",
            "baseline_dem": base,
            "baseline_gop": base,
            "baseline_turnout": 2 * base + 10,
        }
    )
    cur = pd.DataFrame(
        {
            "postal_code": "VA",
            "geographic_unit_fips": ids,
            "results_dem": results,
            "results_gop": results,
            "results_turnout": 2 * results + 10,
            "percent_expected_vote": 100,
        }
    )
    cur.loc[n_rep:, ["results_dem", "results_gop", "results_turnout"]] = 0
    cur.loc[n_rep:, "percent_expected_vote"] = 0
    cur.loc[n_rep + 2, ["results_dem", "results_gop", "results_turnout", "percent_expected_vote"]] = [300, 300, 610, 30]
    return pre, cur, n_rep


failures = []
for pi_method in ["nonparametric", "gaussian"]:
    for big in [100_000, 1_000_000]:
        pre, cur, n_rep = build(big)
        result = ModelClient().get_estimates(
            cur,
            "2017-11-07_VA_G",
            "G",
            ["dem"],
            prediction_intervals=[0.9],
            percent_reporting_threshold=100,
            geographic_unit_type="county",
            raw_config=json.loads(json.dumps(CONFIG)),
            preprocessed_data=pre,
            pi_method=pi_method,
            aggregates=["unit"],
            features=[],
            fixed_effects={},
            save_output=[],
            model_parameters={"fit_margin_outlier_model": False, "fit_turnout_outlier_model": False},
        )
        units = result["unit_data"].set_index("geographic_unit_fips").loc[pre.geographic_unit_fips]
        assert (units.unit_category == "expected").all() and units.reporting.sum() == n_rep
        b = pre.baseline_dem.values + 1.0
        r = (cur.results_dem.values - b) / b
        m = weighted_median(r[:n_rep], b[:n_rep])
        expected = np.round(np.maximum(b[n_rep:] * (1 + m), cur.results_dem.values[n_rep:]))
        got = units.pred_dem.values[n_rep:]
        print(
            f"{pi_method:14s} county baseline {big:>9,d}: unique weighted median m = {m:+.4f}; "
            f"expected predictions {expected.tolist()}, model returned {got.tolist()} "
            f"(implied factor {(got / b[n_rep:] - 1).round(4).tolist()})"
        )
        if not np.array_equal(expected, got):
            failures.append((pi_method, big))

if failures:
    print("C05 VIOLATED: predictions are not baseline * (1 + weighted median) for", failures)
    sys.exit(1)
print("C05 holds on these inputs")
