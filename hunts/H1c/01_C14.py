"""
C14 (last sentence) / C01: "Duplicate reporting unit ids are rejected with a client error."

A fully reporting unit that is NOT in the baseline (an 'unexpected' unit) and that the feed lists twice is not
rejected: CombinedDataHandler._get_unexpected_units() silently keeps the first row (drop_duplicates) and the client's
duplicate check only counts ids of the baseline-merged frame (data.data), where unexpected units never appear.
The votes of the second row vanish from every table.  The same happens to a baseline unit that the 'drop' policy
turns into an unexpected unit (a missing value in one of the requested estimands in both rows).

Run:  cd /repo && PYTHONPATH=/repo/src /venv/bin/python _hunt/01_C14.py
"""
import json
import logging
import sys

import pandas as pd

logging.disable(logging.CRITICAL)

from elexmodel.client import ModelClient, ModelClientException  # noqa: E402

FIX = "/repo/tests/fixtures"
DT = {"geographic_unit_fips": str, "county_fips": str, "district": str}
config = json.load(open(f"{FIX}/config/2017-11-07_VA_G.json"))
baseline = pd.read_csv(f"{FIX}/data/2017-11-07_VA_G/G/data_county.csv", dtype=DT)

# plain feed: the first 60 counties are fully in, the others have not started
feed = baseline[["postal_code", "geographic_unit_fips", "results_dem", "results_gop", "results_turnout"]].copy()
feed["percent_expected_vote"] = 100
feed.loc[60:, ["results_dem", "results_gop", "results_turnout"]] = 0
feed.loc[60:, "percent_expected_vote"] = 0


def run(feed_df, estimands, pi_method):
    extra_kwargs = {"features": ["baseline_normalized_margin"]} if pi_method == "bootstrap" else {}
    return ModelClient().get_estimates(
        feed_df.copy(),
        "2017-11-07_VA_G",
        "G",
        estimands,
        [0.7, 0.9],
        100,
        "county",
        raw_config=json.loads(json.dumps(config)),
        preprocessed_data=baseline.copy(),
        save_output=[],
        pi_method=pi_method,
        aggregates=["postal_code", "unit"],
        model_parameters={"fit_margin_outlier_model": False, "fit_turnout_outlier_model": False, "B": 20},
        **extra_kwargs,
    )


failures = []

# sanity: the same duplicate on a baseline unit IS rejected
dup_expected = pd.concat([feed, feed.iloc[[0]]], ignore_index=True)
try:
    run(dup_expected, ["turnout"], "nonparametric")
    print("NOTE: duplicate of a baseline unit was accepted as well")
except ModelClientException as e:
    print("baseline unit listed twice -> rejected as expected:", e)

# case A: a unit that is not in the baseline, listed twice, both rows at 100 percent
extra = pd.DataFrame(
    [
        {"postal_code": "VA", "geographic_unit_fips": "51999", "results_dem": 600, "results_gop": 380, "results_turnout": 1000, "percent_expected_vote": 100},
        {"postal_code": "VA", "geographic_unit_fips": "51999", "results_dem": 1500, "results_gop": 950, "results_turnout": 2500, "percent_expected_vote": 100},
    ]
)
feed_a = pd.concat([feed, extra], ignore_index=True)
for pi_method in ["nonparametric", "gaussian"]:
    try:
        res = run(feed_a, ["turnout"], pi_method)
    except ModelClientException as e:
        print(f"A/{pi_method}: rejected ({e})")
        continue
    state = res["state_data"]["results_turnout"].iloc[0]
    units = res["unit_data"].query("geographic_unit_fips == '51999'")
    msg = (
        f"A/{pi_method}: unit 51999 is listed twice in the feed (1000 and 2500 votes, both at 100%) and the run is accepted; "
        f"unit table rows={len(units)} results={units.results_turnout.tolist()}, state counted votes={state} "
        f"but the feed holds {feed_a.results_turnout.sum()} ({feed_a.results_turnout.sum() - state} votes vanished)"
    )
    print(msg)
    failures.append(msg)

# case B: a baseline unit listed twice, results_dem missing in both rows ('drop' policy makes it an unexpected unit)
fips0 = feed.geographic_unit_fips.iloc[0]
row = feed.iloc[[0]].copy()
row["results_dem"] = float("nan")
row2 = row.copy()
row2["results_turnout"] = row2["results_turnout"] + 777
feed_b = pd.concat([feed.iloc[1:], row, row2], ignore_index=True)
try:
    res = run(feed_b, ["dem", "turnout"], "nonparametric")
    state = res["state_data"]["results_turnout"].iloc[0]
    units = res["unit_data"].query("geographic_unit_fips == @fips0")
    msg = (
        f"B: baseline unit {fips0} listed twice (turnout {row.results_turnout.iloc[0]} and {row2.results_turnout.iloc[0]}, "
        f"results_dem missing) is accepted: rows={len(units)} category={units.unit_category.tolist()} "
        f"results_turnout={units.results_turnout.tolist()}, state counted={state}, feed total={feed_b.results_turnout.sum()}"
    )
    print(msg)
    failures.append(msg)
except ModelClientException as e:
    print(f"B: rejected ({e})")

# case C: the same feed as in A with the bootstrap estimator (margin): the second row's two-party votes vanish too
try:
    res = run(feed_a, ["margin"], "bootstrap")
    units = res["unit_data"].query("geographic_unit_fips == '51999'")
    msg = (
        f"C/bootstrap: unit 51999 listed twice is accepted: unit rows={len(units)}, results_margin={units.results_margin.tolist()} "
        f"(rows in the feed: 600-380=220 and 1500-950=550)"
    )
    print(msg)
    failures.append(msg)
except ModelClientException as e:
    print(f"C: rejected ({e})")

if failures:
    print("\nVIOLATION: a reporting unit id that appears twice in the feed was not rejected with a client error")
    sys.exit(1)
print("property holds")
sys.exit(0)
