"""
C02 (bootstrap): one nonreporting unit whose percent_expected_vote is missing in the feed turns EVERY aggregate row
(all counties, the state) into pred_margin 0.0 with the interval [-0.001, 0.001], and the national summary into 0 +/- 0.

Such a unit is kept as a nonreporting unit (CombinedDataHandler.get_units: "a unit whose expected vote is missing still
ends up on one of the two sides (it counts as not reporting)"), the conformal estimators predict it normally, but in
BootstrapElectionModel._generate_nonreporting_bounds the NaN becomes a NaN clipping bound, the unit's prediction becomes
NaN, `aggregate_indicator_test.T @ weighted_z_test_pred` spreads the NaN to all groups (0 * NaN), and np.nan_to_num hides it
as 0.

run: cd /repo && PYTHONPATH=/repo/src /venv/bin/python _hunt/01_C02.py
"""
import sys

import numpy as np

from common import ELECTION, config, feed, load
from elexmodel.client import ModelClient

office, unit_type = "G", "county"
aggregates = ["postal_code", "county_fips", "unit"]
prep = load(office, unit_type)


def run(current):
    client = ModelClient()
    res = client.get_estimates(
        current,
        ELECTION,
        office,
        ["margin"],
        prediction_intervals=[0.9],
        percent_reporting_threshold=100,
        geographic_unit_type=unit_type,
        raw_config=config(),
        preprocessed_data=prep.copy(),
        pi_method="bootstrap",
        aggregates=aggregates,
        features=["baseline_normalized_margin"],
        save_output=[],
        model_parameters={"B": 20},
    )
    nat = client.get_national_summary_votes_estimates(None, 0, [0.9])
    return res, nat


# 70 of 133 counties report, the others are at 50% with half of their votes counted
current = feed(prep, 70, seed=2, partial_pct=50, partial_frac=0.5)
current["percent_expected_vote"] = current["percent_expected_vote"].astype(float)
victim = current.index[current.percent_expected_vote < 100][0]
victim_id = current.loc[victim, "geographic_unit_fips"]

res_ok, nat_ok = run(current)

broken = current.copy()
broken.loc[victim, "percent_expected_vote"] = np.nan  # the provider has no expected vote estimate for this one county
res, nat = run(broken)

units = res["unit_data"].merge(prep[["geographic_unit_fips", "county_fips"]], on="geographic_unit_fips")
other_units = units[units.geographic_unit_fips != victim_id]
by_county = other_units.groupby("county_fips")[["pred_margin", "pred_turnout"]].sum()
by_county["expected_margin"] = by_county.pred_margin / by_county.pred_turnout
county = res["county_data"].set_index("county_fips").join(by_county[["expected_margin"]], how="inner")
wrong = county[(county.pred_margin - county.expected_margin).abs() > 1e-9]

print("unit rows with missing values:", int(units.isna().any(axis=1).sum()), "(unit", victim_id, ")")
print("state table without the missing value:\n", res_ok["state_data"].to_string())
print("state table with the missing value:\n", res["state_data"].to_string())
print("national summary without / with:", nat_ok.iloc[0].tolist(), "/", nat.iloc[0].tolist())
print(f"{len(wrong)} of {len(county)} counties that do NOT contain unit {victim_id} have a predicted margin that is not")
print("the sum of their units' margins over their units' turnout, e.g.")
print(wrong[["pred_margin", "expected_margin", "lower_0.9_margin", "upper_0.9_margin"]].head().to_string())

if len(wrong) > 0:
    print("VIOLATION (C02): aggregate rows do not equal the sum of their units; one missing percent_expected_vote zeroes all groups")
    sys.exit(1)
print("property holds")
sys.exit(0)
