"""
C08 (national_summary_correlation=False, default hard threshold): a CALLED contest still moves the bounds of the
national summary.

In the uncorrelated mode get_national_summary_estimates picks the bootstrap draws that sit at the lower / upper quantile of
the simulated national totals (aggregate_dem_vals_B) and reads the possible losses / gains of every contest off those two
draws. The simulated totals are built from divided_error_B_1 / divided_error_B_2, which know nothing about the race calls: a
called contest keeps flipping in the draws and its weight takes part in ranking the draws. Only afterwards the entries of the
called contests are zeroed. So the half widths (prediction - lower, upper - prediction) depend on the weight of a contest that
is called, i.e. the called contest does contribute uncertainty to the bounds.

Elections: six synthetic states made from the VA county fixture (ids / postal codes renamed, results shifted).

run: cd /repo && PYTHONPATH=/repo/src /venv/bin/python _hunt/03_C08.py
"""
import sys

import numpy as np
import pandas as pd

from common import ELECTION, config, feed, load
from elexmodel.client import ModelClient

shifts = {"VA": -0.045, "VB": -0.05, "VC": -0.04, "VD": 0.05, "VE": -0.2, "VF": -0.048}
states = list(shifts)


def synthetic_states():
    base = load("G", "county")
    rng = np.random.default_rng(1)
    frames = []
    for k, (state, shift) in enumerate(shifts.items()):
        d = base.copy()
        d["postal_code"] = state
        if k > 0:
            prefix = str(51 + k)
            d["geographic_unit_fips"] = prefix + d["geographic_unit_fips"].str[2:]
            d["county_fips"] = prefix + d["county_fips"].str[2:]
        total = d["results_dem"] + d["results_gop"]
        move = np.floor(total * (shift + rng.normal(0, 0.02, len(d))))
        move = np.clip(move, -d["results_dem"] + 1, d["results_gop"] - 1)
        d["results_dem"] = d["results_dem"] + move
        d["results_gop"] = d["results_gop"] - move
        frames.append(d)
    return pd.concat(frames, ignore_index=True)


prep = synthetic_states()
raw_config = config()
for sub in raw_config[ELECTION]:
    sub["states"] = states

current = feed(prep, 150, seed=3, partial_pct=60, partial_frac=0.6)
client = ModelClient()
res = client.get_estimates(
    current,
    ELECTION,
    "G",
    ["margin"],
    prediction_intervals=[0.9],
    percent_reporting_threshold=100,
    geographic_unit_type="county",
    raw_config=raw_config,
    preprocessed_data=prep,
    pi_method="bootstrap",
    aggregates=["postal_code", "unit"],
    features=["baseline_normalized_margin"],
    save_output=[],
    model_parameters={"B": 100, "national_summary_correlation": False},
    lhs_called_contests=["VA"],  # VA is called for the LHS party
)
print(res["state_data"][["postal_code", "pred_margin", "lower_0.9_margin", "upper_0.9_margin"]].to_string())

alphas = [0.7, 0.9]
weights = {s: 10 for s in states}
heavier = dict(weights, VA=55)  # only the weight of the called contest differs
a = client.get_national_summary_votes_estimates(weights, 0, alphas).iloc[0].to_dict()
b = client.get_national_summary_votes_estimates(heavier, 0, alphas).iloc[0].to_dict()
print("VA weighs 10:", a)
print("VA weighs 55:", b)

bad = []
for alpha in alphas:
    width_a = (a["agg_pred"] - a[f"lower_{alpha}"], a[f"upper_{alpha}"] - a["agg_pred"])
    width_b = (b["agg_pred"] - b[f"lower_{alpha}"], b[f"upper_{alpha}"] - b["agg_pred"])
    print(f"level {alpha}: (pred - lower, upper - pred) = {width_a} with weight 10, {width_b} with weight 55")
    if width_a != width_b:
        bad.append(alpha)
if b["agg_pred"] - a["agg_pred"] != 45:
    bad.append("prediction")

if bad:
    print("VIOLATION (C08): the distance of the bounds from the prediction depends on the weight of a called contest:", bad)
    sys.exit(1)
print("property holds")
sys.exit(0)
