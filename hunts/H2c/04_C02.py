"""
C02: a unit that is listed twice in the feed with both rows below the reporting threshold is accepted (only a unit with a
reporting row is rejected as a duplicate, client.py "At least one unit appears twice"). It is then predicted twice: its counted
votes and its prediction enter the county and state rows two times, and with k estimands the unit table holds 2**k rows for it
(process_final_results joins the per-estimand unit tables on the id), so the state table no longer sums to the unit table.

run: cd /repo && PYTHONPATH=/repo/src /venv/bin/python _hunt/04_C02.py
"""
import sys

import pandas as pd

from common import ELECTION, config, feed, load
from elexmodel.client import ModelClient

office, unit_type = "G", "county"
prep = load(office, unit_type)
current = feed(prep, 70, seed=2, partial_pct=50, partial_frac=0.5)
victim = current.index[current.percent_expected_vote < 100][0]
victim_id = current.loc[victim, "geographic_unit_fips"]
second_row = current.loc[[victim]].copy()
second_row["percent_expected_vote"] = 60  # e.g. an update of the same county that was appended instead of replaced
current_dup = pd.concat([current, second_row], ignore_index=True)


def run(cur):
    return ModelClient().get_estimates(
        cur,
        ELECTION,
        office,
        ["turnout", "dem"],
        prediction_intervals=[0.9],
        percent_reporting_threshold=100,
        geographic_unit_type=unit_type,
        raw_config=config(),
        preprocessed_data=prep.copy(),
        pi_method="nonparametric",
        aggregates=["postal_code", "county_fips", "unit"],
        save_output=[],
    )


try:
    res = run(current_dup)
except Exception as e:  # a rejection would be fine
    print("feed rejected:", repr(e))
    print("property holds")
    sys.exit(0)

ref = run(current)
units = res["unit_data"]
rows = units[units.geographic_unit_fips == victim_id]
county = res["county_data"][res["county_data"].county_fips == victim_id].iloc[0]
print(f"unit table rows for {victim_id}: {len(rows)}")
print(rows[["geographic_unit_fips", "results_turnout", "pred_turnout", "lower_0.9_turnout", "upper_0.9_turnout"]].to_string())
print(f"county row of {victim_id}: results_turnout={county.results_turnout} pred_turnout={county.pred_turnout}")
print("votes counted in the unit (feed):", current.loc[victim, "results_turnout"])
state, state_ref = res["state_data"].iloc[0], ref["state_data"].iloc[0]
print(f"state: results_turnout={state.results_turnout} (single listing: {state_ref.results_turnout}), "
      f"pred_turnout={state.pred_turnout} (single listing: {state_ref.pred_turnout})")
unit_sum = units.pred_turnout.sum()
print(f"sum of unit table pred_turnout = {unit_sum}, state table pred_turnout = {state.pred_turnout}")

if len(rows) != 1 or abs(unit_sum - state.pred_turnout) > 1e-6 or county.results_turnout != current.loc[victim, "results_turnout"]:
    print("VIOLATION (C02): the duplicate listing is accepted, counted twice in the aggregates and 4 times in the unit table")
    sys.exit(1)
print("property holds")
sys.exit(0)
