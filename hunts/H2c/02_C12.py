"""
C12: two get_estimates calls with equal arguments return different tables when another run (different estimand,
save_output=["data"]) happens in between.

get_estimates(save_output=["data"]) writes the preprocessed frame *after* the estimand specific columns were added
(client.py: preprocessed_data_handler.save_data(preprocessed_data)) to <cwd>/data/<election>/<office>/data_<unit>.csv, which is
the file PreprocessedDataHandler.get_data() reads as the raw baseline in every later run that does not pass preprocessed_data.
A margin run adds baseline_normalized_margin; CombinedDataHandler._fit_outlier_detection_model picks its regressors by column
presence ("baseline_normalized_margin" if it is in the frame), so after the margin run the turnout outlier model of a
turnout-only run has another regressor, excludes other units, and all predictions change.

run: cd /repo && PYTHONPATH=/repo/src /venv/bin/python _hunt/02_C12.py
"""
import os
import sys
import tempfile

import pandas as pd

from common import ELECTION, config, feed, load

workdir = tempfile.mkdtemp(prefix="c12_cache_")
os.chdir(workdir)  # the local cache lives in the current directory

from elexmodel.client import ModelClient  # noqa: E402

office, unit_type = "G", "county"
prep = load(office, unit_type)
current = feed(prep, 70, seed=3, partial_pct=60, partial_frac=0.6)


def run(estimands, pi_method, save_output, pass_data):
    extra = {"raw_config": config(), "preprocessed_data": prep.copy()} if pass_data else {}
    return ModelClient().get_estimates(
        current.copy(),
        ELECTION,
        office,
        estimands,
        prediction_intervals=[0.7, 0.9],
        percent_reporting_threshold=100,
        geographic_unit_type=unit_type,
        pi_method=pi_method,
        aggregates=["postal_code", "unit"],
        features=["baseline_normalized_margin"] if pi_method == "bootstrap" else [],
        model_parameters={"B": 20},
        save_output=save_output,
        **extra,
    )


# set up the local cache (config + baseline data) the way a first run with save_output=["data", "config"] does
run(["turnout"], "nonparametric", ["data", "config"], True)

first = run(["turnout"], "nonparametric", [], False)  # run X
run(["margin"], "bootstrap", ["data"], False)  # some other run with different arguments
second = run(["turnout"], "nonparametric", [], False)  # run X again, equal arguments

print("run X, first time :\n", first["state_data"].to_string())
print("run X, second time:\n", second["state_data"].to_string())
print("unit categories first :", first["unit_data"].unit_category.value_counts().to_dict())
print("unit categories second:", second["unit_data"].unit_category.value_counts().to_dict())

same = all(first[k].equals(second[k]) for k in first)
if not same:
    print("VIOLATION (C12): equal arguments, different tables (the run in between rewrote the cached baseline file)")
    sys.exit(1)
print("property holds")
sys.exit(0)
