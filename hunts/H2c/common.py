"""Shared helpers for the hunt scripts (loading fixtures, building feeds)."""
import json
import logging
import os
import warnings

import numpy as np
import pandas as pd

logging.disable(logging.CRITICAL)

ROOT = os.environ.get("ELEX_REPO", "/repo")
FIX = os.path.join(ROOT, "tests", "fixtures")
ELECTION = "2017-11-07_VA_G"


def config():
    with open(os.path.join(FIX, "config", f"{ELECTION}.json"), encoding="utf-8") as f:
        return json.load(f)


def load(office, unit_type):
    return pd.read_csv(
        os.path.join(FIX, "data", ELECTION, office, f"data_{unit_type}.csv"),
        dtype={"geographic_unit_fips": str, "geographic_unit_type": str, "county_fips": str, "district": str},
    )


def feed(df, n_reporting=None, reporting_mask=None, seed=0, partial_pct=0, partial_frac=0.0):
    """Builds a feed: the first n_reporting (after a seeded shuffle) units are at 100%, the rest at partial_pct with
    partial_frac of their votes counted"""
    d = df[["postal_code", "geographic_unit_fips", "results_turnout", "results_dem", "results_gop"]].copy()
    if reporting_mask is None:
        rng = np.random.default_rng(seed)
        order = rng.permutation(len(d))
        reporting_mask = np.zeros(len(d), dtype=bool)
        reporting_mask[order[:n_reporting]] = True
    reporting_mask = np.asarray(reporting_mask)
    d["percent_expected_vote"] = np.where(reporting_mask, 100, partial_pct)
    for c in ["results_turnout", "results_dem", "results_gop"]:
        d[c] = np.where(reporting_mask, d[c], np.floor(d[c] * partial_frac))
    return d.reset_index(drop=True)


def multi_state(office="G", unit_type="county", states=("VA", "VB", "VC"), seed=1):
    """Clones the VA fixture into several synthetic states (different ids, perturbed results)"""
    base = load(office, unit_type)
    rng = np.random.default_rng(seed)
    out = []
    for k, s in enumerate(states):
        d = base.copy()
        if k > 0:
            d["postal_code"] = s
            pre = str(51 + k)
            d["geographic_unit_fips"] = d["geographic_unit_fips"].str.replace("51", pre, n=1) if office == "G" else d["geographic_unit_fips"].str.replace("_51", "_" + pre, n=1)
            d["county_fips"] = pre + d["county_fips"].str[2:]
            shift = rng.normal(0, 0.05)
            tot = d["results_dem"] + d["results_gop"]
            move = np.floor(tot * (shift + rng.normal(0, 0.02, len(d))))
            move = np.clip(move, -d["results_dem"] + 1, d["results_gop"] - 1)
            d["results_dem"] = d["results_dem"] + move
            d["results_gop"] = d["results_gop"] - move
        out.append(d)
    df = pd.concat(out, ignore_index=True)
    assert df.geographic_unit_fips.is_unique
    return df


def multi_config(states=("VA", "VB", "VC")):
    cfg = config()
    for sub in cfg[ELECTION]:
        sub["states"] = list(states)
    return cfg
