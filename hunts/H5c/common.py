import json
import logging
import os

import numpy as np
import pandas as pd

ROOT = os.environ.get("ELEX_REPO", "/repo")
FIX = os.path.join(ROOT, "tests", "fixtures")

logging.getLogger("elexmodel").setLevel(logging.ERROR)
logging.getLogger("elexsolver").setLevel(logging.ERROR)

DTYPES = {"geographic_unit_fips": str, "geographic_unit_type": str, "county_fips": str, "district": str}


def load_config(election_id="2017-11-07_VA_G"):
    with open(os.path.join(FIX, "config", f"{election_id}.json"), encoding="utf-8") as f:
        return json.load(f)


def load_data(election_id="2017-11-07_VA_G", office="G", unit="county"):
    return pd.read_csv(os.path.join(FIX, "data", election_id, office, f"data_{unit}.csv"), dtype=DTYPES)


def quiet():
    for name in list(logging.root.manager.loggerDict):
        if name.startswith("elex"):
            logging.getLogger(name).setLevel(logging.ERROR)
            logging.getLogger(name).handlers = []
            logging.getLogger(name).propagate = False
