"""
C20 - the retry after a failed / inaccurate quantile-regression solve does NOT use the same regularisation.

ConformalElectionModel.fit_model re-runs a failed fit with normalize_weights=False but passes the *same* lambda_.
The penalised objective of elexsolver is   sum_i w_i * pinball(r_i) + lambda_ * ||beta||^2.
On the first attempt the weights are divided by their sum (they sum to 1), on the retry they are the raw baseline
votes (they sum to millions), so relative to the data term the penalty of the retry is weaker by the factor
sum(weights): a run whose solve is retried silently becomes an (almost) unregularised model.

The script runs the public client three times on the VA governor county fixture (lambda_=1, one feature):
  A) undisturbed,
  B) the solver reports "optimal_inaccurate" (or "solver_error") for one solve, so fit_model retries it,
  C) undisturbed, but with lambda_=1e-9 (practically no regularisation).
If the retry used the same regularisation, B would reproduce A (it is the same optimisation problem up to a rescaling of
the objective). Instead B reproduces C.

The failure is injected at the place where cvxpy turns the raw solver answer into a status
(SolvingChain.invert), everything else - cvxpy's warning, the warning filter of ConformalElectionModel, the
except clause, the retry - is the real code.
"""
import os
import sys

import numpy as np

import json  # noqa: E402
import logging  # noqa: E402

import pandas as pd  # noqa: E402,F811

ROOT = os.environ.get("ELEX_REPO", "/repo")
FIX = os.path.join(ROOT, "tests", "fixtures")


def load_config(election_id="2017-11-07_VA_G"):
    with open(os.path.join(FIX, "config", f"{election_id}.json"), encoding="utf-8") as f:
        return json.load(f)


def load_data(election_id="2017-11-07_VA_G", office="G", unit="county"):
    dtypes = {"geographic_unit_fips": str, "geographic_unit_type": str, "county_fips": str, "district": str}
    return pd.read_csv(os.path.join(FIX, "data", election_id, office, f"data_{unit}.csv"), dtype=dtypes)


def quiet():
    for name in list(logging.root.manager.loggerDict):
        if name.startswith("elex"):
            logging.getLogger(name).setLevel(logging.ERROR)
            logging.getLogger(name).handlers = []
            logging.getLogger(name).propagate = False


from cvxpy.reductions.solvers.solving_chain import SolvingChain  # noqa: E402

from elexmodel.client import ModelClient  # noqa: E402

quiet()

cfg = load_config()
base = load_data()

state = {"n": 0, "fail_at": None, "status": None}
_orig_invert = SolvingChain.invert


def _invert(self, solution, inverse_data):
    sol = _orig_invert(self, solution, inverse_data)
    state["n"] += 1
    if state["fail_at"] is not None and state["n"] == state["fail_at"]:
        sol.status = state["status"]
    return sol


SolvingChain.invert = _invert


def run(lambda_, fail_at=None, status=None):
    state.update(n=0, fail_at=fail_at, status=status)
    rng = np.random.default_rng(3)
    ids = base.geographic_unit_fips.values.copy()
    rng.shuffle(ids)
    reporting = set(ids[:70])
    cur = base[["postal_code", "geographic_unit_fips", "results_turnout", "results_dem", "results_gop"]].copy()
    is_rep = cur.geographic_unit_fips.isin(reporting)
    cur["percent_expected_vote"] = np.where(is_rep, 100, 0)
    for col in ["results_turnout", "results_dem", "results_gop"]:
        cur.loc[~is_rep, col] = 0
    client = ModelClient()
    res = client.get_estimates(
        cur,
        "2017-11-07_VA_G",
        "G",
        ["turnout"],
        [0.9],
        100,
        "county",
        raw_config=cfg,
        preprocessed_data=base.copy(),
        save_output=[],
        pi_method="nonparametric",
        aggregates=["postal_code", "unit"],
        features=["percent_bachelor_or_higher"],
        model_parameters={
            "lambda_": lambda_,
            "fit_margin_outlier_model": False,
            "fit_turnout_outlier_model": False,
        },
    )
    # features_to_coefficients pairs the feature names with the list of per-quantile coefficient arrays, so the whole
    # coefficient vector (intercept, feature) of the median fit sits under the first name
    coefficients = np.asarray(list(client.model.features_to_coefficients.values())[0]).flatten()
    return res, coefficients, state["n"]


def main():
    failures = []
    res_a, coef_a, n_a = run(1.0)
    res_c, coef_c, _ = run(1e-9)
    feat = "percent_bachelor_or_higher"
    print(f"A  lambda_=1, no failure      : median-fit coefficients (intercept, {feat}) = {coef_a}  (solves: {n_a})")
    print(f"C  lambda_=1e-9, no failure   : median-fit coefficients (intercept, {feat}) = {coef_c}")
    state_a = res_a["state_data"]
    state_c = res_c["state_data"]

    # solve 1 is the median fit, solve 2 / 3 the lower / upper bound of the 0.9 interval
    for position, name in [(1, "median"), (3, "upper bound")]:
        for status in ["optimal_inaccurate", "solver_error"]:
            res_b, coef_b, n_b = run(1.0, fail_at=position, status=status)
            assert n_b == n_a + 1, "the injected failure should lead to exactly one extra solve"
            same_tables = all(res_b[t].shape == res_a[t].shape for t in res_a)
            col = "pred_turnout" if position == 1 else "upper_0.9_turnout"
            a, b, c = state_a[col][0], res_b["state_data"][col][0], state_c[col][0]
            print(
                f"B  lambda_=1, {status:18s} at the {name:11s} fit -> retried; same tables: {same_tables}; "
                f"state {col}: A={a:.0f}  B={b:.0f}  C(unregularised)={c:.0f}"
            )
            if position == 1:
                print(f"     coefficient of {feat}: A={coef_a[1]:.4f}  B={coef_b[1]:.4f}  C={coef_c[1]:.4f}")
            # same regularisation => B solves the same problem as A
            if abs(b - a) > 0.2 * abs(c - a) + 5:
                failures.append(
                    f"{status} at the {name} fit: retried run gives {col}={b:.0f}, the undisturbed regularised run "
                    f"{a:.0f}, the unregularised run {c:.0f}"
                )

    if failures:
        print("\nVIOLATION of C20: the retry does not use the same (effective) regularisation as the failed attempt:")
        for f in failures:
            print("  -", f)
        print(
            "  fit_model passes the same lambda_ with normalize_weights=False, so the penalty is lambda_ against weights that "
            "sum to millions instead of 1 (ConformalElectionModel.py:69-77)"
        )
        sys.exit(1)
    print("property holds")
    sys.exit(0)


if __name__ == "__main__":
    main()
