"""
C10 (outstanding units cannot influence anyone else's estimate) - bootstrap estimator.

One outstanding unit whose percent_expected_vote is missing (the combined data handler explicitly keeps such a unit as
"not reporting", and the two conformal estimators predict it like any other outstanding unit) makes the bootstrap model
return 0.0 / +-0.001 for EVERY group of EVERY table - also for the groups that do not contain the unit - and changes the
national summary. Nothing is raised, the NaN is hidden by np.nan_to_num.

Mechanism: BootstrapElectionModel._generate_nonreporting_bounds turns the missing expected vote into NaN clipping bounds
for that unit, its weighted predictions become NaN, and the group sums are matrix products with the 0/1 group indicator
(aggregate_indicator_test.T @ self.weighted_z_test_pred, ... @ self.errors_B_k): 0 * NaN = NaN, so the NaN of one unit
lands in the sum of every group. np.nan_to_num(... / aggregate_z_total) then reports 0.

The script compares two bootstrap runs on the VA governor county fixture that differ only in the expected-vote field of
one outstanding county (0 vs missing); its partial count is the same in both. Tables are compared on the groups that do
not contain that county.
"""
import os
import sys

import numpy as np
import pandas as pd

import json  # noqa: E402
import logging  # noqa: E402

import pandas as pd  # noqa: E402,F811

ROOT = os.environ.get("ELEX_REPO", "/repo")
FIX = os.path.join(ROOT, "tests", "fixtures")


def load_config(election_id="2017-11-07_VA_G"):
    with open(os.path.join(FIX, "config", f"{election_id}.json"), encoding="utf-8") as f:
        return json.load(f)


def load_data(election_id="2017-11-07_VA_G", office="G", unit="county"):
    dtypes = {"geographic_unit_fips": str, "geographic_unit_type": str, "county_fips": str, "district": str}
    return pd.read_csv(os.path.join(FIX, "data", election_id, office, f"data_{unit}.csv"), dtype=dtypes)


def quiet():
    for name in list(logging.root.manager.loggerDict):
        if name.startswith("elex"):
            logging.getLogger(name).setLevel(logging.ERROR)
            logging.getLogger(name).handlers = []
            logging.getLogger(name).propagate = False


from elexmodel.client import ModelClient  # noqa: E402

quiet()
pd.set_option("display.width", 200)
pd.set_option("display.max_columns", 20)

cfg = load_config()
base = load_data()


def feed():
    rng = np.random.default_rng(7)
    ids = base.geographic_unit_fips.values.copy()
    rng.shuffle(ids)
    reporting = set(ids[:80])
    cur = base[["postal_code", "geographic_unit_fips", "results_turnout", "results_dem", "results_gop"]].copy()
    is_rep = cur.geographic_unit_fips.isin(reporting)
    cur["percent_expected_vote"] = np.where(is_rep, 100.0, 0.0)
    for col in ["results_turnout", "results_dem", "results_gop"]:
        cur.loc[~is_rep, col] = 0
    target = [i for i in base.geographic_unit_fips if i not in reporting][0]
    return cur, target


def run(cur, pi_method="bootstrap"):
    client = ModelClient()
    kwargs = dict(
        raw_config=cfg,
        preprocessed_data=base.copy(),
        save_output=[],
        pi_method=pi_method,
        aggregates=["postal_code", "county_classification", "unit"],
    )
    if pi_method == "bootstrap":
        res = client.get_estimates(
            cur.copy(),
            "2017-11-07_VA_G",
            "G",
            ["margin"],
            [0.9],
            100,
            "county",
            features=["baseline_normalized_margin"],
            model_parameters={"B": 30},
            **kwargs,
        )
        nat = client.get_national_summary_votes_estimates(None, 0, [0.9])
    else:
        res = client.get_estimates(
            cur.copy(),
            "2017-11-07_VA_G",
            "G",
            ["turnout"],
            [0.9],
            100,
            "county",
            model_parameters={"fit_margin_outlier_model": False, "fit_turnout_outlier_model": False},
            **kwargs,
        )
        nat = None
    return res, nat


def main():
    cur, target = feed()
    target_class = base.loc[base.geographic_unit_fips == target, "county_classification"].iloc[0]
    cur_missing = cur.copy()
    cur_missing.loc[cur_missing.geographic_unit_fips == target, "percent_expected_vote"] = np.nan

    # the conformal estimators accept the feed: the unit is outstanding and gets a prediction
    res_g, _ = run(cur_missing, "gaussian")
    row = res_g["unit_data"][res_g["unit_data"].geographic_unit_fips == target].iloc[0]
    print(
        f"gaussian estimator, unit {target} with missing percent_expected_vote: reporting={row.reporting}, "
        f"category={row.unit_category}, pred_turnout={row.pred_turnout}, no NaN anywhere: "
        f"{not any(t.isna().any().any() for t in res_g.values())}"
    )

    res_a, nat_a = run(cur)
    res_b, nat_b = run(cur_missing)

    cls_a = res_a["classification_data"]
    cls_b = res_b["classification_data"]
    other_a = cls_a[cls_a.county_classification != target_class].reset_index(drop=True)
    other_b = cls_b[cls_b.county_classification != target_class].reset_index(drop=True)
    print(f"\noutstanding unit {target} (classification '{target_class}'), same counts in both runs")
    print("classification groups NOT containing the unit, percent_expected_vote = 0:")
    print(other_a)
    print("classification groups NOT containing the unit, percent_expected_vote missing:")
    print(other_b)
    print("national summary, percent_expected_vote = 0      :", nat_a.to_dict("records"))
    print("national summary, percent_expected_vote missing:", nat_b.to_dict("records"))

    units_a = res_a["unit_data"][res_a["unit_data"].geographic_unit_fips != target].reset_index(drop=True)
    units_b = res_b["unit_data"][res_b["unit_data"].geographic_unit_fips != target].reset_index(drop=True)
    print("rows of all other units identical:", units_a.equals(units_b))

    if not other_a.equals(other_b):
        changed = int((other_a.select_dtypes("number") != other_b.select_dtypes("number")).any(axis=1).sum())
        print(
            f"\nVIOLATION of C10: {changed} of {len(other_a)} groups that do not contain unit {target} changed "
            f"(their predictions and intervals collapse to 0 / +-0.001, pred_turnout is NaN)"
        )
        sys.exit(1)
    print("property holds")
    sys.exit(0)


if __name__ == "__main__":
    main()
