"""
C14: "Duplicate reporting unit ids are rejected with a client error."

A reporting unit whose id is listed twice in the feed is only rejected when BOTH rows end up in the modelled
reporting set. Two legitimate-looking feeds slip through:
  (a) one row of the unit is at 100 percent, a second (stale) row of the same id is below the reporting threshold:
      the unit is at the same time a reporting and an outstanding unit, it gets two rows in the unit table and its
      votes are counted twice in the state table;
  (b) both rows are at 100 percent, one of them has a turnout factor outside the limits: the non-modelled filter
      removes the id (both rows) from the reporting units, the run goes on without the error and the counted votes
      of the state are those of the strange row.
Exit 1 if one of the two feeds is accepted.
"""
import json
import logging
import sys

import pandas as pd

from elexmodel.client import ModelClient, ModelClientException

logging.getLogger("elexmodel").setLevel(logging.ERROR)
FX = "/repo/tests/fixtures"
DT = {"geographic_unit_fips": str, "geographic_unit_type": str, "county_fips": str, "district": str}
pre = pd.read_csv(f"{FX}/data/2017-11-07_VA_G/G/data_county.csv", dtype=DT)
cfg = json.load(open(f"{FX}/config/2017-11-07_VA_G.json"))

cols = ["results_turnout", "results_dem", "results_gop"]
cur = pre[["postal_code", "geographic_unit_fips"] + cols].sample(frac=1, random_state=2).reset_index(drop=True)
cur["percent_expected_vote"] = 0.0
cur.loc[:59, "percent_expected_vote"] = 100.0
cur.loc[60:, cols] = 0
dup_id = cur.loc[0, "geographic_unit_fips"]  # a fully reporting unit


def run(feed):
    client = ModelClient()
    return client.get_estimates(
        feed.copy(),
        "2017-11-07_VA_G",
        "G",
        ["turnout"],
        prediction_intervals=[0.9],
        percent_reporting_threshold=100,
        geographic_unit_type="county",
        raw_config=cfg,
        preprocessed_data=pre.copy(),
        pi_method="nonparametric",
        aggregates=["postal_code", "unit"],
        save_output=[],
    )


clean = run(cur)
clean_votes = clean["state_data"].results_turnout.iloc[0]
violations = []

# control: both rows identical and reporting -> rejected
try:
    run(pd.concat([cur, cur.iloc[[0]]]))
    violations.append("control: identical duplicate rows were accepted")
except ModelClientException as e:
    print("control ok, rejected with:", e)

# (a) second row of the same id below the threshold
stale = cur.iloc[[0]].copy()
stale["percent_expected_vote"] = 60.0
stale[cols] = (stale[cols] * 0.6).round()
try:
    res = run(pd.concat([cur, stale]))
    rows = res["unit_data"][res["unit_data"].geographic_unit_fips == dup_id]
    votes = res["state_data"].results_turnout.iloc[0]
    print(f"(a) accepted. unit {dup_id} has {len(rows)} rows in unit_data:")
    print(rows.to_string())
    print(f"    counted votes of the state: {votes} (clean feed: {clean_votes})")
    violations.append(f"(a) duplicate id {dup_id} (100% row + 60% row) accepted, unit counted twice")
except ModelClientException as e:
    print("(a) rejected:", e)

# (b) second row at 100 percent with ten times the votes (turnout factor above the upper limit)
strange = cur.iloc[[0]].copy()
strange[cols] = strange[cols] * 10
try:
    res = run(pd.concat([cur, strange]))
    rows = res["unit_data"][res["unit_data"].geographic_unit_fips == dup_id]
    votes = res["state_data"].results_turnout.iloc[0]
    print(f"(b) accepted. unit {dup_id} rows in unit_data:")
    print(rows.to_string())
    print(f"    counted votes of the state: {votes} (clean feed: {clean_votes})")
    violations.append(f"(b) duplicate id {dup_id} (normal row + row with strange turnout factor) accepted")
except ModelClientException as e:
    print("(b) rejected:", e)

if violations:
    print("\nVIOLATION of C14 (duplicate reporting unit ids are rejected):")
    for v in violations:
        print("  -", v)
    sys.exit(1)
print("property holds")
sys.exit(0)
