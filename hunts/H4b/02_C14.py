"""
C14 (bootstrap estimator): "whenever that minimum is met the run completes ... no arithmetic or solver failure can
occur for any count at or above the minimum".

BootstrapElectionModel.get_minimum_reporting_units() is the constant 10, whatever the number of regressors. The
lambda cross validation fits on 4/5 of the reporting units, so with 8 (config-approved) features = 9 columns and 10 or
11 modelled reporting units the training folds have fewer rows than columns, and the OLS solver dies with
"ValueError: operands could not be broadcast together" instead of the run completing (or the dedicated
ModelNotEnoughSubunitsException being raised). With a user lambda the same happens in the main fit when n < columns.
Exit 1 if a run with >= 10 modelled reporting units fails with something else than the dedicated error.
"""
import json
import logging
import sys
import traceback

import pandas as pd

from elexmodel.client import ModelClient, ModelNotEnoughSubunitsException

logging.getLogger("elexmodel").setLevel(logging.ERROR)
FX = "/repo/tests/fixtures"
DT = {"geographic_unit_fips": str, "geographic_unit_type": str, "county_fips": str, "district": str}
pre = pd.read_csv(f"{FX}/data/2017-11-07_VA_G/G/data_county.csv", dtype=DT)
pre["baseline_normalized_margin"] = (pre.baseline_dem - pre.baseline_gop) / (pre.baseline_dem + pre.baseline_gop)
cfg = json.load(open(f"{FX}/config/2017-11-07_VA_G.json"))
for office in cfg["2017-11-07_VA_G"]:
    office["features"].append("baseline_normalized_margin")

features = [
    "baseline_normalized_margin",
    "age_le_30",
    "age_geq_30_le_45",
    "age_geq_45_le_65",
    "ethnicity_east_and_south_asian",
    "ethnicity_european",
    "ethnicity_hispanic_and_portuguese",
    "ethnicity_likely_african_american",
]
cols = ["results_turnout", "results_dem", "results_gop"]
feed0 = pre[["postal_code", "geographic_unit_fips"] + cols].sample(frac=1, random_state=1).reset_index(drop=True)

failures = []
for n in range(10, 16):
    feed = feed0.copy()
    feed["percent_expected_vote"] = 0.0
    feed.loc[: n - 1, "percent_expected_vote"] = 100.0
    feed.loc[n:, cols] = 0
    client = ModelClient()
    try:
        res = client.get_estimates(
            feed,
            "2017-11-07_VA_G",
            "G",
            ["margin"],
            prediction_intervals=[0.9],
            percent_reporting_threshold=100,
            geographic_unit_type="county",
            raw_config=cfg,
            preprocessed_data=pre.copy(),
            pi_method="bootstrap",
            features=features,
            aggregates=["postal_code", "unit"],
            save_output=[],
            # outlier models off so that all n reporting units are modelled
            model_parameters={"B": 20, "fit_margin_outlier_model": False, "fit_turnout_outlier_model": False},
        )
        n_modelled = int((res["unit_data"].reporting == 1).sum())
        print(f"n={n}: completed ({n_modelled} modelled reporting units)")
    except ModelNotEnoughSubunitsException as e:
        print(f"n={n}: dedicated error: {e}")
    except Exception as e:  # noqa
        where = [f"{t.filename.split('/')[-1]}:{t.lineno}" for t in traceback.extract_tb(e.__traceback__)][-3:]
        print(f"n={n}: {type(e).__name__}: {e}  at {where}")
        failures.append(n)

if failures:
    print(
        f"\nVIOLATION of C14: with {len(features)} features the bootstrap run crashes for n={failures} modelled reporting "
        "units although the minimum (10) is met"
    )
    sys.exit(1)
print("property holds")
sys.exit(0)
