"""
C14 (bootstrap estimator, multi-state election): "whenever that minimum is met the run completes".

Early in a national night the first reporting units can all lie in different states. If no contest has two modelled
reporting units, every contest effect epsilon_hat is set to zero (BootstrapElectionModel._estimate_epsilon), and
_sample_test_epsilon only special-cases "exactly one non-zero contest": with zero of them the variance fallback
np.var(<empty>, ddof=1) and np.corrcoef(<empty>) are NaN and rng.multivariate_normal fails with
"LinAlgError: SVD did not converge", although 10 (the minimum) or more units are reporting.
The fixture counties are spread over 20 artificial states; the first n reporting units are one per state.
Exit 1 if a run with >= 10 modelled reporting units fails with something else than the dedicated error.
"""
import json
import logging
import sys
import traceback

import pandas as pd

from elexmodel.client import ModelClient, ModelNotEnoughSubunitsException

logging.getLogger("elexmodel").setLevel(logging.ERROR)
FX = "/repo/tests/fixtures"
DT = {"geographic_unit_fips": str, "geographic_unit_type": str, "county_fips": str, "district": str}
pre = pd.read_csv(f"{FX}/data/2017-11-07_VA_G/G/data_county.csv", dtype=DT)
pre["baseline_normalized_margin"] = (pre.baseline_dem - pre.baseline_gop) / (pre.baseline_dem + pre.baseline_gop)
states = [f"S{i:02d}" for i in range(20)]
pre["postal_code"] = [states[i % 20] for i in range(len(pre))]
cfg = json.load(open(f"{FX}/config/2017-11-07_VA_G.json"))
for office in cfg["2017-11-07_VA_G"]:
    office["features"].append("baseline_normalized_margin")
    office["states"] = states

cols = ["results_turnout", "results_dem", "results_gop"]
feed0 = pre[["postal_code", "geographic_unit_fips"] + cols].sample(frac=1, random_state=1).reset_index(drop=True)
# one unit of every state first, then the rest
feed0 = pd.concat([feed0.drop_duplicates("postal_code"), feed0[feed0.duplicated("postal_code")]]).reset_index(drop=True)

failures = []
for n in [10, 15, 20, 21, 25]:
    feed = feed0.copy()
    feed["percent_expected_vote"] = 0.0
    feed.loc[: n - 1, "percent_expected_vote"] = 100.0
    feed.loc[n:, cols] = 0
    most = feed[feed.percent_expected_vote == 100].postal_code.value_counts().max()
    client = ModelClient()
    try:
        res = client.get_estimates(
            feed,
            "2017-11-07_VA_G",
            "G",
            ["margin"],
            prediction_intervals=[0.9],
            percent_reporting_threshold=100,
            geographic_unit_type="county",
            raw_config=cfg,
            preprocessed_data=pre.copy(),
            pi_method="bootstrap",
            features=["baseline_normalized_margin"],
            aggregates=["postal_code", "unit"],
            save_output=[],
            model_parameters={"B": 20, "fit_margin_outlier_model": False, "fit_turnout_outlier_model": False},
        )
        print(f"n={n} (max {most} reporting units per state): completed")
    except ModelNotEnoughSubunitsException as e:
        print(f"n={n}: dedicated error: {e}")
    except Exception as e:  # noqa
        where = [f"{t.filename.split('/')[-1]}:{t.lineno}" for t in traceback.extract_tb(e.__traceback__) if "elexmodel" in t.filename][-2:]
        print(f"n={n} (max {most} reporting unit per state): {type(e).__name__}: {e}  at {where}")
        failures.append(n)

if failures:
    print(
        f"\nVIOLATION of C14: bootstrap run crashes for n={failures} modelled reporting units (minimum is 10) when no "
        "state has two reporting units"
    )
    sys.exit(1)
print("property holds")
sys.exit(0)
