"""
C18 (adjacent - historical evaluation run, not a plain estimate run): with save_output=["results"] outside the local
environment, HistoricalModelClient.get_historical_evaluation can never persist its evaluation:

 * _write_evaluation() is handed the whole {"evaluation": ..., "estimates": {<table>: DataFrame}} dictionary and
   S3JsonUtil.put() json.dumps() it -> TypeError: Object of type DataFrame is not JSON serializable. The error is raised
   at the very end, after every historical estimate run has already written its results / prediction tables.
 * the key it would use is built from the *list* of estimands:
   .../evaluation/G/precinct/['turnout', 'dem']/current.json  - it contains brackets, quotes and, with more than one
   estimand, whitespace ("every remote key is a whitespace-free path").

Everything is driven through the public client with the repository's own fixtures (cwd is switched to tests/fixtures
because config / preprocessed data of historical elections are looked up relative to the working directory).
boto3.client is replaced by a recorder so that nothing leaves the machine.
"""
import logging
import os
import re
import sys

import elexmodel.client as client_mod
import elexmodel.handlers.s3 as s3mod
from elexmodel.client import HistoricalModelClient
from elexmodel.handlers.data.LiveData import MockLiveDataHandler

logging.disable(logging.CRITICAL)
ROOT = os.environ.get("ELEX_REPO", "/repo")
os.chdir(os.path.join(ROOT, "tests", "fixtures"))

written, attempted = [], []


class Recorder:
    def put_object(self, **kw):
        written.append(kw["Key"])
        return True

    def get_object(self, **kw):
        raise RuntimeError(f"unexpected S3 read {kw}")


s3mod.boto3.client = lambda *a, **k: Recorder()
orig_json_put = s3mod.S3JsonUtil.put


def spy(self, filename, data, **kw):
    attempted.append(filename)
    return orig_json_put(self, filename, data, **kw)


s3mod.S3JsonUtil.put = spy
client_mod.APP_ENV = "prod"

election_id, office, unit_type = "2021-11-02_VA_G", "G", "precinct"
estimands = ["turnout", "dem"]
handler = MockLiveDataHandler(election_id, office, unit_type, estimands, historical=True)
handler.shuffle(seed=1)
data = handler.get_percent_fully_reported(60)

error = None
try:
    HistoricalModelClient().get_historical_evaluation(
        data,
        election_id,
        office,
        estimands,
        [0.9],
        100,
        unit_type,
        save_output=["results"],
        aggregates=["postal_code"],
        model_parameters={"fit_margin_outlier_model": False, "fit_turnout_outlier_model": False},
    )
except Exception as e:  # noqa
    error = e

print("keys written before the end of the run:")
for k in written:
    print("   ", k)
print("evaluation key attempted:", attempted)
problems = []
if error is not None:
    problems.append(f"saving the evaluation failed: {type(error).__name__}: {error}")
for k in attempted + written:
    if re.search(r"\s", k) or "[" in k:
        problems.append(f"remote key is not a clean path: {k!r}")
if problems:
    print("\nC18 (historical evaluation) VIOLATED:")
    for p in problems:
        print(" -", p)
    sys.exit(1)
print("holds")
sys.exit(0)
