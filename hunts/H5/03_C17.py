"""
C17: a non-monotone history whose LAST version has zero votes is not discarded.

Unit 51003 reports 500 votes, then 1000 votes, and is then revised downwards to 0 votes (the feed withdrew the
county). Turnout 500 -> 1000 -> 0 is non-monotone, so the statement requires 101 rows of missing corrections with
error_type "non-monotone percent expected vote". Instead the unit comes back with error_type "none" and a non-missing
correction (0.0) at 0 percent.

Cause: the monotonicity test is made on turnout / turnout[-1]; np.divide(..., where=turnout[-1] != 0) leaves the whole
ratio at 0 when the last turnout is 0, and a constant vector passes `np.diff(...) >= 0`.

Unit 51001 is a regular history and is only there to show the normal output.
"""
import logging
import sys
import warnings

import pandas as pd

from elexmodel.handlers.data.Estimandizer import Estimandizer
from elexmodel.handlers.data.VersionedData import VersionedDataHandler

logging.disable(logging.CRITICAL)
warnings.simplefilter("ignore")

t0 = pd.Timestamp("2024-11-05 20:00", tz="America/New_York")
rows = []
#            fips    dem  gop  turnout  percent_expected_vote
history = [
    ("51001", 300, 200, 510, 50),
    ("51003", 300, 200, 500, 50),
    ("51001", 500, 450, 970, 95),
    ("51003", 600, 400, 1000, 95),
    ("51001", 520, 470, 1010, 99),
    ("51003", 0, 0, 0, 0),  # revised downwards to nothing
]
for i, (fips, dem, gop, turnout, pev) in enumerate(history):
    rows.append(
        {
            "postal_code": "VA",
            "geographic_unit_fips": fips,
            "results_dem": dem,
            "results_gop": gop,
            "results_turnout": turnout,
            "percent_expected_vote": pev,
            "last_modified": t0 + pd.Timedelta(minutes=10 * (i // 2)),
        }
    )
data = pd.DataFrame(rows)
data, _ = Estimandizer().add_estimand_results(data, ["margin"], False)
data = data.sort_values("last_modified")

handler = VersionedDataHandler("2024-11-05_VA_G", "P", "county")
out = handler.compute_versioned_margin_estimate(data=data)
bad = out[out.geographic_unit_fips == "51003"]
print(bad[["geographic_unit_fips", "percent_expected_vote", "est_margin", "est_correction", "error_type"]].to_string())

ok = len(bad) == 101 and bad.est_correction.isna().all() and (bad.error_type != "none").all()
if not ok:
    print(
        "\nC17 VIOLATED: unit 51003 has turnout 500 -> 1000 -> 0 (non-monotone) but yields "
        f"{len(bad)} row(s), error_type={sorted(set(bad.error_type))}, "
        f"{int(bad.est_correction.notna().sum())} non-missing correction(s); expected 101 rows of missing corrections "
        "with the error type recorded"
    )
    sys.exit(1)
print("C17 holds")
sys.exit(0)
