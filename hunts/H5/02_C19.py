"""
C19: the requested [start, end] window is read in the HOST's local timezone, not in the timezone the handler was
asked to work in (tzinfo, default America/New_York; the source comments the bounds as "# in EST").

VersionedDataHandler.__init__ does
    datetime.fromisoformat(start_date).astimezone(tz=UTC)
on the (naive) strings that the client passes through from model_parameters["versioned_start_date"/"versioned_end_date"].
astimezone() on a naive datetime assumes the *process-local* timezone, so on a server running in UTC the window
"20:00 - 22:00" on election night becomes 15:00 - 17:00 New York time. The rows that come back are stamped in New York
time (tzinfo), so the same object returns rows whose stamp lies outside the window it was asked for - or, as here,
returns "no data" although five versions lie in the window - and the answer changes with the TZ of the machine.

A fake S3 (newest-first listing with paging, in-memory downloads) stands in for the storage service; everything else
is the real VersionedDataHandler / S3VersionUtil code.
"""
import logging
import os
import sys
import time
from concurrent.futures import Future
from datetime import datetime, timedelta

from dateutil import tz

logging.disable(logging.CRITICAL)


class FakeS3:
    def __init__(self, versions, page):
        self.versions, self.page = versions, page

    def list_object_versions(self, Bucket, Prefix, KeyMarker=None, VersionIdMarker=None, **kw):
        start = 0
        if VersionIdMarker is not None:
            start = [v["VersionId"] for v in self.versions].index(VersionIdMarker) + 1
        chunk = self.versions[start : start + self.page]
        truncated = start + self.page < len(self.versions)
        response = {"IsTruncated": truncated}
        if chunk:
            response["Versions"] = [dict(v) for v in chunk]
        if truncated:
            response["NextKeyMarker"] = Prefix
            response["NextVersionIdMarker"] = chunk[-1]["VersionId"]
        return response


class FakeManager:
    def __init__(self, bodies):
        self.bodies = bodies

    def download(self, bucket, key, fileobj, extra_args=None, subscribers=None):
        f = Future()
        fileobj.write(self.bodies[extra_args["VersionId"]])
        f.set_result(None)
        return f


NY = tz.gettz("America/New_York")
# one version every 30 minutes from 18:00 to 23:30 New York time on election night
versions, bodies = [], {}
for i in range(12):
    t = datetime(2024, 11, 5, 18, 0, tzinfo=NY) + timedelta(minutes=30 * i)
    vid = f"v{i:02d}"
    versions.append({"VersionId": vid, "LastModified": t.astimezone(tz.tzutc()), "Size": 1, "Key": "k"})
    bodies[vid] = (
        "postal_code,geographic_unit_fips,percent_expected_vote,results_dem,results_gop,results_turnout\n"
        f"VA,51001,{8 * i},{60 * i},{40 * i},{100 * i}\n"
    ).encode()
versions = versions[::-1]  # S3 lists newest first

START, END = "2024-11-05T20:00:00", "2024-11-05T22:00:00"
expected = ["20:00", "20:30", "21:00", "21:30", "22:00"]  # New York wall-clock, the timezone of the request


def fetch(host_tz):
    os.environ["TZ"] = host_tz
    time.tzset()
    from elexmodel.handlers.data.VersionedData import VersionedDataHandler

    handler = VersionedDataHandler(
        "2024-11-05_VA_G", "P", "county", ["margin"], start_date=START, end_date=END, sample=1, tzinfo="America/New_York"
    )
    handler.s3_client.s3_client = FakeS3(versions, page=5)
    handler.s3_client.manager = FakeManager(bodies)
    data = handler.get_versioned_results()
    if data is None:
        return None
    return [ts.strftime("%H:%M") for ts in data["last_modified"]]


problems = []
results = {}
for host_tz in ("UTC", "America/New_York", "America/Los_Angeles"):
    got = fetch(host_tz)
    results[host_tz] = got
    print(f"host TZ={host_tz:20s} window {START[11:16]}-{END[11:16]} (handler tz America/New_York) -> stamps {got}")
    if got != expected:
        problems.append(
            f"host TZ {host_tz}: asked for versions modified between {START} and {END} with tzinfo America/New_York, "
            f"got rows stamped {got} (New York time); expected {expected}"
        )

if problems:
    print("\nC19 VIOLATED: the window is interpreted in the host timezone, the stamps in the requested timezone")
    for p in problems:
        print(" -", p)
    sys.exit(1)
print("C19 holds")
sys.exit(0)
