"""
C20: an *inaccurate* quantile-regression solve is NOT retried with the installed cvxpy (1.9.2, allowed by
setup.py "cvxpy~=1.5").

ConformalElectionModel relies on
    warnings.filterwarnings("error", category=UserWarning, module="cvxpy")
to turn cvxpy's "Solution may be inaccurate" warning into an exception that fit_model() catches. The `module`
argument is matched against the module the warning is *attributed to*. cvxpy >= 1.7 attributes its warnings to the
first frame outside the cvxpy package (cvxpy/utilities/warn.py, skip_file_prefixes), i.e. to
elexsolver.QuantileRegressionSolver. The filter therefore never matches, nothing is raised, fit_model() does not
retry and the run silently uses the coefficients of the inaccurate solve.

The script drives ModelClient.get_estimates (nonparametric and gaussian, lambda_ > 0 so the cvxpy path is used) and
makes the k-th conic solve of the run report status "optimal_inaccurate" (this is done at the lowest possible level,
SolvingChain.invert, so that cvxpy itself emits its real warning through its real code path). For every position k
(median, lower, upper) we then check that fit_model re-ran that fit with normalize_weights=False.

For comparison the other failure kind (cvxpy.error.SolverError, status "solver_error") is exercised the same way.
"""
import json
import os
import sys
import warnings

import cvxpy
import pandas as pd
from cvxpy.reductions.solvers.solving_chain import SolvingChain
from elexsolver.QuantileRegressionSolver import QuantileRegressionSolver

from elexmodel.client import ModelClient
from elexmodel.handlers.data.LiveData import MockLiveDataHandler

import logging

logging.disable(logging.CRITICAL)
ROOT = os.environ.get("ELEX_REPO", "/repo")
FIX = os.path.join(ROOT, "tests", "fixtures")

with open(os.path.join(FIX, "config", "2017-11-07_VA_G.json")) as f:
    va_config = json.load(f)
va = pd.read_csv(
    os.path.join(FIX, "data", "2017-11-07_VA_G", "G", "data_county.csv"),
    dtype={"geographic_unit_fips": str, "county_fips": str, "district": str},
)

election_id, office, unit_type = "2017-11-07_VA_G", "G", "county"
estimands = ["turnout"]

# ---- instrumentation (observes only) ---------------------------------------------------------------------------
state = {"solve_no": 0, "bad_solve": None, "bad_status": None}
fit_calls = []

orig_invert = SolvingChain.invert


def invert(self, solution, inverse_data):
    sol = orig_invert(self, solution, inverse_data)
    state["solve_no"] += 1
    if state["solve_no"] == state["bad_solve"]:
        sol.status = state["bad_status"]
    return sol


SolvingChain.invert = invert

orig_fit = QuantileRegressionSolver.fit


def fit(self, x, y, taus=0.5, weights=None, lambda_=0.0, fit_intercept=True, **kw):
    fit_calls.append(
        {"tau": taus, "lambda_": lambda_, "fit_intercept": fit_intercept, "normalize_weights": kw.get("normalize_weights", True)}
    )
    return orig_fit(self, x, y, taus=taus, weights=weights, lambda_=lambda_, fit_intercept=fit_intercept, **kw)


QuantileRegressionSolver.fit = fit


def run(pi_method, bad_solve, bad_status):
    state.update(solve_no=0, bad_solve=bad_solve, bad_status=bad_status)
    fit_calls.clear()
    handler = MockLiveDataHandler(election_id, office, unit_type, estimands, data=va.copy())
    handler.shuffle(seed=5)
    data = handler.get_percent_fully_reported(70)
    pre = va.copy()
    pre["last_election_results_turnout"] = pre["baseline_turnout"].copy() + 1
    with warnings.catch_warnings(record=True) as rec:
        warnings.simplefilter("always", append=True)  # appended: the model's own "error" filter keeps priority
        res = ModelClient().get_estimates(
            data,
            election_id,
            office,
            estimands,
            [0.9],
            100,
            unit_type,
            raw_config=va_config,
            preprocessed_data=pre,
            pi_method=pi_method,
            save_output=[],
            model_parameters={"lambda_": 1.0, "fit_margin_outlier_model": False, "fit_turnout_outlier_model": False},
        )
    inacc = [w for w in rec if "inaccurate" in str(w.message)]
    return res, list(fit_calls), inacc


failures = []
names = {1: "median", 2: "lower bound", 3: "upper bound"}
for pi_method in ["nonparametric", "gaussian"]:
    base, base_calls, _ = run(pi_method, None, None)
    assert [c["normalize_weights"] for c in base_calls] == [True, True, True], base_calls
    for k in (1, 2, 3):
        for status, kind in ((cvxpy.settings.OPTIMAL_INACCURATE, "inaccuracy warning"), (cvxpy.settings.SOLVER_ERROR, "solver error")):
            try:
                res, calls, inacc = run(pi_method, k, status)
            except Exception as e:  # noqa
                failures.append(f"{pi_method}: {kind} in the {names[k]} fit was fatal: {type(e).__name__}: {e}")
                continue
            retried = [c for c in calls if c["normalize_weights"] is False]
            where = inacc[0].filename if inacc else None
            print(
                f"{pi_method:13s} {kind:18s} at {names[k]:11s}: fits={len(calls)} retries={len(retried)}"
                + (f"  (warning was only *recorded*, attributed to {where})" if inacc else "")
            )
            if len(retried) != 1:
                failures.append(
                    f"{pi_method}: {kind} in the {names[k]} fit (solve #{k}) was not retried "
                    f"({len(calls)} solver fits, {len(retried)} with normalize_weights=False); "
                    f"the inaccurate coefficients were used as they are"
                )
            else:
                c = calls[k - 1]
                r = retried[0]
                if (c["tau"], c["lambda_"], c["fit_intercept"]) != (r["tau"], r["lambda_"], r["fit_intercept"]):
                    failures.append(f"{pi_method}: retry used different arguments {r} than the failed attempt {c}")

if failures:
    print("\nC20 VIOLATED:")
    for f_ in failures:
        print(" -", f_)
    sys.exit(1)
print("C20 holds")
sys.exit(0)
