import json, os, sys, warnings, logging
import numpy as np, pandas as pd
logging.disable(logging.CRITICAL)
from elexmodel.client import ModelClient
from elexmodel.handlers.data.LiveData import MockLiveDataHandler
ROOT = os.environ.get("ELEX_REPO", "/repo")
FIX = os.path.join(ROOT, "tests", "fixtures")
DT = {"geographic_unit_fips": str, "geographic_unit_type": str, "county_fips": str, "district": str}
def config(eid="2017-11-07_VA_G"):
    return json.load(open(os.path.join(FIX, "config", f"{eid}.json")))
def baseline(eid, office, gut):
    return pd.read_csv(os.path.join(FIX, "data", eid, office, f"data_{gut}.csv"), dtype=DT)
def feed(eid, office, gut, estimands, n_reporting, seed=1, pre=None):
    pre = baseline(eid, office, gut) if pre is None else pre
    h = MockLiveDataHandler(eid, office, gut, estimands, data=pre.copy())
    h.shuffle(seed=seed)
    return h.get_n_fully_reported(n_reporting)
def run(eid, office, gut, estimands, cur, pre=None, alphas=[0.7, 0.9], thr=100, client=None, **kw):
    pre = baseline(eid, office, gut) if pre is None else pre
    client = client or ModelClient()
    kw.setdefault("save_output", [])
    with warnings.catch_warnings():
        warnings.simplefilter("ignore")
        res = client.get_estimates(cur.copy(), eid, office, estimands, alphas, thr, gut, raw_config=config(eid), preprocessed_data=pre.copy(), **kw)
    return res
