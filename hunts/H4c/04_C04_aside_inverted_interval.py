"""
Aside found while testing C04 (not one of the four statements, reported because it changes numbers silently).

C04 allows "negative corrections".  NonparametricElectionModel.get_unit_prediction_intervals subtracts the single
correction from the lower quantile bound and adds it to the upper one without any ordering guard, and the point
prediction comes from a different fit (median regression on ALL reporting units) than the two bounds (quantile
regressions on the training split only).  With a negative correction the reported interval is therefore regularly
inverted (lower > upper, an empty interval) or does not contain the reported prediction - for single units and, as the
aggregate bounds are sums of the unit bounds, even for the state row.

VA governor fixture, county level, 60 of 133 counties reporting (MockLiveDataHandler shuffle seed 2), two features,
outlier models off, estimand turnout.
"""
import sys, os
sys.path.insert(0, os.path.dirname(os.path.abspath(__file__)))
from common import *  # noqa

EID = "2017-11-07_VA_G"
ests = ["dem", "turnout"]
cur = feed(EID, "G", "county", ests, 60, seed=2)
res = run(EID, "G", "county", ests, cur, alphas=[0.5, 0.7, 0.9], aggregates=["postal_code", "unit"],
          pi_method="nonparametric", features=["percent_bachelor_or_higher", "median_household_income"],
          model_parameters={"fit_margin_outlier_model": False, "fit_turnout_outlier_model": False})
u = res["unit_data"]
u = u[u.reporting == 0]
s = res["state_data"]
bad = False
for a in (0.5, 0.7, 0.9):
    lo, hi = f"lower_{a}_turnout", f"upper_{a}_turnout"
    n_inv = int((u[lo] > u[hi]).sum())
    n_out = int(((u.pred_turnout < u[lo]) | (u.pred_turnout > u[hi])).sum())
    row = s.iloc[0]
    print(f"alpha {a}: {n_inv} of {len(u)} unit intervals inverted, {n_out} do not contain pred_turnout; "
          f"state: lower {row[lo]:.0f} pred {row.pred_turnout:.0f} upper {row[hi]:.0f}")
    if n_inv or n_out or row[lo] > row[hi] or not (row[lo] <= row.pred_turnout <= row[hi]):
        bad = True
if bad:
    print("VIOLATION: inverted / prediction-excluding nonparametric intervals are reported")
    sys.exit(1)
print("intervals are ordered and contain the prediction")
sys.exit(0)
