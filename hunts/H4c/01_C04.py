"""
C04 (probabilistic clause), end to end through ModelClient with the DEFAULT model parameters.

Exchangeable election: 150 units, identical baseline (1000 votes each, so all calibration weights are equal), one
feature, heavy-tailed noise (t with 2 d.o.f.), 100 units reporting chosen at random, estimand turnout, alpha = 0.9,
pi_method = nonparametric.  The statement promises P(true count of a not-yet-reporting unit inside its reported
interval) >= alpha.

With the default parameters (turnout factor limits 0.5 / 2.0, outlier models on) the reporting units are filtered BY
THEIR OUTCOME before they become calibration units, the not-yet-reporting units cannot be filtered, so calibration and
test units are no longer exchangeable and the reported 90% interval covers clearly less than 90%.
With the exclusions switched off the very same elections are covered (control run).
"""
import sys, os
sys.path.insert(0, os.path.dirname(os.path.abspath(__file__)))
from common import *  # noqa

EID = "2017-11-07_VA_G"
ALPHA = 0.9
N, N_REPORTING, REPS = 150, 100, 120


def simulate(model_parameters, seed=0):
    rng = np.random.default_rng(seed)
    cov = []
    for _ in range(REPS):
        ids = [f"51{i:03d}" for i in range(N)]
        x = rng.normal(size=N)
        pre = pd.DataFrame(
            {
                "postal_code": "VA", "geographic_unit_fips": ids, "county_fips": ids, "county_classification": "a",
                "baseline_turnout": 1000, "baseline_dem": 500, "baseline_gop": 480, "percent_bachelor_or_higher": x,
            }
        )
        r = np.clip(0.1 * x + 0.12 * rng.standard_t(2, size=N), -0.9, None)  # exchangeable, heavy tailed
        truth = np.maximum(np.round(1001 * (1 + r)), 1)
        reporting = np.zeros(N, bool)
        reporting[rng.choice(N, N_REPORTING, replace=False)] = True
        cur = pd.DataFrame(
            {
                "postal_code": "VA", "geographic_unit_fips": ids,
                "results_turnout": np.where(reporting, truth, 0.0), "results_dem": 0.0, "results_gop": 0.0,
                "percent_expected_vote": np.where(reporting, 100.0, 0.0),
            }
        )
        res = run(EID, "G", "county", ["turnout"], cur, pre=pre, alphas=[ALPHA], aggregates=["unit"],
                  pi_method="nonparametric", features=["percent_bachelor_or_higher"], model_parameters=model_parameters)
        u = res["unit_data"].set_index("geographic_unit_fips").loc[ids]
        nr = ((u.reporting == 0) & (u.unit_category == "expected")).values
        assert nr.sum() == N - N_REPORTING
        inside = (u[f"lower_{ALPHA}_turnout"].values <= truth) & (truth <= u[f"upper_{ALPHA}_turnout"].values)
        cov.append(inside[nr].mean())
    cov = np.array(cov)
    return cov.mean(), cov.std(ddof=1) / np.sqrt(REPS)


default_cov, default_se = simulate({})
control_cov, control_se = simulate(
    {"fit_margin_outlier_model": False, "fit_turnout_outlier_model": False,
     "turnout_factor_lower": 0, "turnout_factor_upper": 1e9}
)
print(f"default parameters : coverage of the {ALPHA} unit interval = {default_cov:.3f} (se {default_se:.3f})")
print(f"exclusions off     : coverage of the {ALPHA} unit interval = {control_cov:.3f} (se {control_se:.3f})")
if control_cov < ALPHA - 3 * control_se:
    print("VIOLATION even with the exclusions off")
    sys.exit(1)
if default_cov < ALPHA - 3 * default_se:
    print(f"VIOLATION: with the default eligibility rules the reported {ALPHA} interval of a not-yet-reporting unit "
          f"covers only {default_cov:.3f} < {ALPHA} (exchangeable units, equal baseline size)")
    sys.exit(1)
print("property holds")
sys.exit(0)
