"""
C13 (second clause: a table keeps the same rows / keys however many estimands are requested) and the client's
"a unit has to be listed once" check.

A feed that lists a NOT-YET-REPORTING unit twice (both rows below the reporting threshold) is accepted: the duplicate
check in client.get_estimates only looks at ids that have at least one row at or above the threshold.  The unit then
sits twice among the nonreporting units, so
  * it is predicted twice (the state prediction is inflated by one extra prediction of that county), and
  * ModelResultsHandler.process_final_results joins the per-estimand unit tables on
    (postal_code, reporting, geographic_unit_fips, unit_category), which is no longer a key: the unit has 2 rows with
    one estimand, 4 with two and 8 with three estimands.
"""
import sys, os
sys.path.insert(0, os.path.dirname(os.path.abspath(__file__)))
from common import *  # noqa

EID = "2017-11-07_VA_G"
pre = baseline(EID, "G", "county")
cur = pre[["postal_code", "geographic_unit_fips", "results_dem", "results_gop", "results_turnout"]].copy()
cur["percent_expected_vote"] = 100.0
cur.loc[80:, "percent_expected_vote"] = 0.0
cur.loc[80:, ["results_dem", "results_gop", "results_turnout"]] = 0
dup_id = cur.geographic_unit_fips.iloc[90]
cur_dup = pd.concat([cur, cur.iloc[[90]]])  # the same not-yet-reporting county listed a second time
mp = {"fit_margin_outlier_model": False, "fit_turnout_outlier_model": False}

problems = []
clean = run(EID, "G", "county", ["dem"], cur, alphas=[0.9], aggregates=["postal_code", "unit"],
            pi_method="nonparametric", model_parameters=mp)
clean_pred = clean["state_data"].pred_dem.iloc[0]
rows = {}
for estimands in (["dem"], ["dem", "turnout"], ["dem", "turnout", "gop"]):
    try:
        res = run(EID, "G", "county", estimands, cur_dup, alphas=[0.9], aggregates=["postal_code", "unit"],
                  pi_method="nonparametric", model_parameters=mp)
    except Exception as e:  # a rejection would be the correct behaviour
        print(estimands, "rejected:", type(e).__name__, e)
        continue
    u = res["unit_data"]
    rows[len(estimands)] = int((u.geographic_unit_fips == dup_id).sum())
    pred = res["state_data"].pred_dem.iloc[0]
    print(f"{estimands}: feed accepted, unit table has {len(u)} rows ({rows[len(estimands)]} for {dup_id}), "
          f"state pred_dem {pred:.0f} (clean feed: {clean_pred:.0f})")
    if pred != clean_pred:
        problems.append("state prediction changed by a unit listed twice")
if len(set(rows.values())) > 1:
    problems.append(f"number of unit rows of {dup_id} depends on the number of estimands: {rows}")
if problems:
    print("VIOLATION:", "; ".join(sorted(set(problems))))
    sys.exit(1)
print("property holds")
sys.exit(0)
