"""
C19-adjacent (retrieval of stored versions), reproduced end to end against a moto S3 bucket with versioning.

Sequence (all through the public API):
  1. early in the night the feed is still empty: ModelClient.get_estimates(save_output=["results"]) first writes the
     feed to results/<office>/<unit type>/current.csv (CombinedDataHandler.write_data is called BEFORE the
     "not enough subunits" check) and then raises ModelNotEnoughSubunitsException.  The stored version is header-only.
  2. two later runs with a growing feed store two normal versions.
  3. VersionedDataHandler.get_versioned_results() lists and downloads the three versions.

Because S3VersionUtil.get concatenates the per-version frames with pd.concat, and the header-only version is a
zero-row frame whose columns are all object, every numeric column of the returned frame becomes object dtype
(under the installed pandas empty frames take part in the dtype resolution).  The versions are all there, but the
frame is unusable: compute_versioned_margin_estimate() on it raises ZeroDivisionError (python ints, 0 / 0 in the
batch margin) for every unit.  Without the header-only version the same call works.
"""
import os, sys
os.environ.update(AWS_ACCESS_KEY_ID="x", AWS_SECRET_ACCESS_KEY="x", AWS_DEFAULT_REGION="us-east-1",
                  MODEL_S3_BUCKET="elex-models", DATA_ENV="dev", MODEL_S3_PATH_ROOT="elex-models")
os.environ.pop("APP_ENV", None)
sys.path.insert(0, os.path.dirname(os.path.abspath(__file__)))
import boto3
from moto import mock_aws
from common import *  # noqa
from elexmodel.client import ModelNotEnoughSubunitsException
from elexmodel.handlers.data.VersionedData import VersionedDataHandler
from elexmodel.utils.file_utils import TARGET_BUCKET

EID = "2017-11-07_VA_G"
pre = baseline(EID, "G", "county")
full = pre[["postal_code", "geographic_unit_fips", "results_dem", "results_gop", "results_turnout"]].copy()


def feed_with(n_reporting):
    cur = full.copy()
    cur["percent_expected_vote"] = 0
    cur.loc[: n_reporting - 1, "percent_expected_vote"] = 100
    cur.loc[n_reporting:, ["results_dem", "results_gop", "results_turnout"]] = 0
    return cur


def model_run(cur):
    return run(EID, "G", "county", ["margin"], cur, alphas=[0.9], aggregates=["postal_code", "unit"],
               pi_method="bootstrap", features=["baseline_normalized_margin"], save_output=["results"],
               model_parameters={"B": 20, "fit_margin_outlier_model": False, "fit_turnout_outlier_model": False})


def versioned(with_empty_run):
    with mock_aws():
        s3c = boto3.client("s3")
        s3c.create_bucket(Bucket=TARGET_BUCKET)
        s3c.put_bucket_versioning(Bucket=TARGET_BUCKET, VersioningConfiguration={"Status": "Enabled"})
        if with_empty_run:
            empty_feed = full.iloc[:0].copy()
            empty_feed["percent_expected_vote"] = []
            try:
                model_run(empty_feed)
            except ModelNotEnoughSubunitsException as e:
                print("   run on the empty feed:", e)
        model_run(feed_with(40))
        model_run(feed_with(80))
        handler = VersionedDataHandler(EID, "G", "county", estimands=["margin"], sample=1)
        data = handler.get_versioned_results()
        print("   versions retrieved:", data.last_modified.nunique() if data is not None else None,
              "| rows:", len(data), "| dtype of results_dem:", data.results_dem.dtype,
              "| of results_normalized_margin:", data.results_normalized_margin.dtype)
        try:
            est = handler.compute_versioned_margin_estimate()
            return data, f"ok ({len(est)} rows)"
        except Exception as e:
            return data, f"{type(e).__name__}: {e}"


print("history without a header-only version:")
data_ok, outcome_ok = versioned(False)
print("   compute_versioned_margin_estimate ->", outcome_ok)
print("history that starts with a header-only version:")
data_bad, outcome_bad = versioned(True)
print("   compute_versioned_margin_estimate ->", outcome_bad)
if outcome_ok.startswith("ok") and (not outcome_bad.startswith("ok") or data_bad.results_dem.dtype == object):
    print("VIOLATION: one header-only stored version turns the numeric columns of all retrieved versions into object "
          "dtype and the retrieved history can no longer be processed")
    sys.exit(1)
print("property holds")
sys.exit(0)
