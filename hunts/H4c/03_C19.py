"""
C19 ("however the storage service pages its newest-first listing", "all page sizes"): S3VersionUtil.list_versions
follows the continuation markers by calling itself once per page and re-filters the accumulated list on every level.
The number of pages a listing may have is therefore bounded by the interpreter's recursion limit: a history that is
served in more than ~990 pages cannot be listed at all (RecursionError instead of the versions in the window).
With the real page size of 1000 this needs ~10^6 versions, so the practical severity is low; the point is only that
the statement's "all page sizes / numbers of versions" does not hold.  Everything else in the statement held in a
3000-case randomized test against a paging fake (window edges inclusive, windows cutting a page, open windows,
sampling, failing downloads, time stamps) - see the report.
"""
import sys, os, datetime as dt
from unittest import mock
sys.path.insert(0, os.path.dirname(os.path.abspath(__file__)))
import logging
logging.disable(logging.CRITICAL)
from elexmodel.handlers import s3

UTC = dt.timezone.utc


class PagingFake:
    def __init__(self, versions, page):
        self.versions, self.page = versions, page

    def list_object_versions(self, Bucket, Prefix, KeyMarker=None, VersionIdMarker=None):
        start = 0 if VersionIdMarker is None else int(VersionIdMarker[1:]) + 1
        page = self.versions[start : start + self.page]
        truncated = start + self.page < len(self.versions)
        response = {"IsTruncated": truncated, "Versions": [dict(v) for v in page]}
        if truncated:
            response.update(NextKeyMarker=page[-1]["Key"], NextVersionIdMarker=page[-1]["VersionId"])
        return response


t0 = dt.datetime(2024, 11, 5, 23, 0, 0, tzinfo=UTC)
versions = [
    {"Key": "p/current.csv", "VersionId": f"v{i}", "LastModified": t0 - dt.timedelta(seconds=i), "Size": 1}
    for i in range(1200)
]
with mock.patch.object(s3, "get_session"), mock.patch.object(s3, "TransferManager"):
    util = s3.S3VersionUtil("bucket", start_date=None, end_date=None)
util.s3_client = PagingFake(versions, page=1)  # a service that serves one version per page
try:
    listed = util.list_versions("p/current.csv")
except RecursionError as e:
    print("VIOLATION: 1200 versions served in pages of 1 cannot be listed:", type(e).__name__, e)
    sys.exit(1)
if [v["VersionId"] for v in listed] != [v["VersionId"] for v in versions]:
    print("VIOLATION: wrong listing")
    sys.exit(1)
print("property holds")
sys.exit(0)
