"""
C01 / C02 / C03, bootstrap estimator, handle_unreporting="zero":
a NON-MODELLED baseline unit (zero baseline, or blocklisted) that has no row in the live feed wipes out every
table: pred_turnout becomes NaN and pred_margin / results_margin / the interval collapse to 0 (+-0.001) for the
state AND for every county, although all the votes of all other units are in the feed.

handle_unreporting="zero" exists exactly for feeds that have no row for units that have not reported yet, and tiny
(zero baseline) precincts are ordinary, so this is an everyday combination.

Run:  cd /repo && PYTHONPATH=/repo/src /venv/bin/python _hunt/02_C01_C02_C03.py
exit 1 = violation reproduced, exit 0 = property holds
"""
import json
import logging
import sys
import warnings

import numpy as np
import pandas as pd

warnings.filterwarnings("ignore")
logging.disable(logging.CRITICAL)

from elexmodel.client import ModelClient  # noqa: E402

ROOT = "/repo/tests/fixtures"
ELECTION = "2017-11-07_VA_G"
config = json.load(open(f"{ROOT}/config/{ELECTION}.json"))
pre = pd.read_csv(f"{ROOT}/data/{ELECTION}/G/data_county.csv", dtype={"geographic_unit_fips": str, "county_fips": str})
AGGS = ["postal_code", "county_fips", "unit"]
MP = {"B": 20, "lambda_": 1.0, "fit_margin_outlier_model": False, "fit_turnout_outlier_model": False}

# live feed: 80 random counties fully in; the feed has NO row for the units that have not reported yet
order = np.random.default_rng(3).permutation(len(pre))
feed = pre.iloc[order[:80]][["postal_code", "geographic_unit_fips", "results_dem", "results_gop", "results_turnout"]].reset_index(drop=True)
feed["percent_expected_vote"] = 100
absent_unit = pre.geographic_unit_fips.iloc[order[-1]]  # a county without a row in the feed


def run(preprocessed, model_parameters):
    return ModelClient().get_estimates(
        feed.copy(), ELECTION, "G", ["margin"], [0.9], 100, "county", raw_config=config,
        preprocessed_data=preprocessed.copy(), model_parameters=model_parameters, aggregates=AGGS,
        pi_method="bootstrap", features=["baseline_normalized_margin"], handle_unreporting="zero", save_output=[],
    )


def report(label, res):
    state, county, unit = res["state_data"], res["county_data"], res["unit_data"]
    live_margin = (feed.results_dem - feed.results_gop).sum()
    print(f"--- {label}")
    print(state.to_string(index=False))
    problems = []
    if not np.isfinite(state.pred_turnout).all():
        problems.append("state pred_turnout is not finite (must be the sum of the units' predicted turnout)")
    if live_margin != 0 and (state.results_margin == 0).all():
        problems.append(f"state counted margin is 0 although the feed holds a net margin of {live_margin} votes")
    n_bad = int((~np.isfinite(county.pred_turnout)).sum())
    if n_bad:
        problems.append(f"{n_bad} of {len(county)} county rows have NaN pred_turnout, pred_margin 0 and results_margin 0")
    bad_units = unit[~np.isfinite(unit.pred_turnout)]
    if len(bad_units):
        problems.append(f"unit table: pred_turnout NaN for {bad_units[['geographic_unit_fips', 'unit_category']].values.tolist()}")
    for p in problems:
        print("    VIOLATION:", p)
    return bool(problems)


# reference: same feed, the absent unit is an ordinary expected unit -> fine
ok_reference = not report("reference (absent unit is an ordinary baseline unit)", run(pre, MP))

# (a) the absent unit has a zero baseline (tiny unit without votes last time)
pre_zero = pre.copy()
pre_zero.loc[pre_zero.geographic_unit_fips == absent_unit, ["baseline_turnout", "baseline_dem", "baseline_gop"]] = 0
violated = report(f"(a) unit {absent_unit} has a zero baseline and no row in the feed", run(pre_zero, MP))
# (b) the absent unit is on the blocklist
violated |= report(f"(b) unit {absent_unit} is blocklisted and has no row in the feed", run(pre, dict(MP, unit_blocklist=[absent_unit])))

if violated:
    print("FAIL: one absent non-modelled unit turned every bootstrap table into 0 / NaN" + ("" if ok_reference else " (reference run was broken too)"))
    sys.exit(1)
print("OK")
sys.exit(0)
