"""
C11: in a district race (geographic_unit_type "county-district" / "precinct-district") one unexpected feed row
whose unit id carries no "<district>_" prefix (e.g. a county-level id such as "51999") makes the whole run fail
with IndexError as soon as a table keyed by county is requested - for every estimator. Without the county table the
run passes and the id itself is taken as the district.

Run:  cd /repo && PYTHONPATH=/repo/src /venv/bin/python _hunt/03_C11.py
exit 1 = violation reproduced, exit 0 = property holds
"""
import json
import logging
import sys
import warnings

import numpy as np
import pandas as pd

warnings.filterwarnings("ignore")
logging.disable(logging.CRITICAL)

from elexmodel.client import ModelClient  # noqa: E402

ROOT = "/repo/tests/fixtures"
ELECTION = "2017-11-07_VA_G"
config = json.load(open(f"{ROOT}/config/{ELECTION}.json"))
pre = pd.read_csv(
    f"{ROOT}/data/{ELECTION}/Y/data_county-district.csv",
    dtype={"geographic_unit_fips": str, "county_fips": str, "district": str},
)
order = np.random.default_rng(3).permutation(len(pre))
feed = pre.iloc[order][["postal_code", "geographic_unit_fips", "results_dem", "results_gop", "results_turnout"]].reset_index(drop=True)
feed["percent_expected_vote"] = 0
feed.loc[:99, "percent_expected_vote"] = 100
feed.loc[100:, ["results_dem", "results_gop", "results_turnout"]] = 0
unexpected = pd.DataFrame(
    {"postal_code": ["VA"], "geographic_unit_fips": ["51999"], "results_dem": [300], "results_gop": [100],
     "results_turnout": [420], "percent_expected_vote": [100]}
)
MP = {"B": 20, "lambda_": 1.0, "fit_margin_outlier_model": False, "fit_turnout_outlier_model": False}


def run(cur, pi_method, aggregates):
    kwargs = dict(aggregates=aggregates, pi_method=pi_method, save_output=[], model_parameters=MP)
    estimands = ["turnout"]
    if pi_method == "bootstrap":
        kwargs["features"] = ["baseline_normalized_margin"]
        estimands = ["margin"]
    return ModelClient().get_estimates(
        cur.copy(), ELECTION, "Y", estimands, [0.9], 100, "county-district", raw_config=config,
        preprocessed_data=pre.copy(), **kwargs,
    )


violated = False
for pi_method in ["nonparametric", "gaussian", "bootstrap"]:
    for aggregates in [["postal_code", "district", "unit"], ["postal_code", "district", "county_fips", "unit"]]:
        run(feed, pi_method, aggregates)  # without the unexpected unit the run is fine
        try:
            res = run(pd.concat([feed, unexpected], ignore_index=True), pi_method, aggregates)
            row = res["unit_data"][res["unit_data"].geographic_unit_fips == "51999"]
            print(f"{pi_method:13s} {aggregates}: ok, unit row: {row[['geographic_unit_fips', 'unit_category']].values.tolist()}")
        except Exception as e:  # noqa
            violated = True
            print(f"{pi_method:13s} {aggregates}: RUN FAILED with {e!r}")

if violated:
    print("FAIL: an unexpected unit made the run fail (C11: 'It never causes the run to fail, whichever aggregates were requested')")
    sys.exit(1)
print("OK")
sys.exit(0)
