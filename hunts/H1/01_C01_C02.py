"""
C01 / C02: the county_classification table silently drops the counted votes (and predictions) of every
NON-MODELLED unit (blocklisted, zero baseline, strange turnout factor, outlier-model units), although these are
baseline units whose classification is known. The classification table therefore no longer sums to the state table.

Run:  cd /repo && PYTHONPATH=/repo/src /venv/bin/python _hunt/01_C01_C02.py
exit 1 = violation reproduced, exit 0 = property holds
"""
import json
import logging
import sys
import warnings

import numpy as np
import pandas as pd

warnings.filterwarnings("ignore")
logging.disable(logging.CRITICAL)

from elexmodel.client import ModelClient  # noqa: E402

ROOT = "/repo/tests/fixtures"
ELECTION = "2017-11-07_VA_G"
config = json.load(open(f"{ROOT}/config/{ELECTION}.json"))
pre = pd.read_csv(f"{ROOT}/data/{ELECTION}/G/data_county.csv", dtype={"geographic_unit_fips": str, "county_fips": str})
AGGS = ["postal_code", "county_classification", "county_fips", "unit"]


def live_feed(n_reporting, seed):
    """n_reporting randomly chosen counties are fully in, the others are in the feed with 0 votes / 0 percent"""
    order = np.random.default_rng(seed).permutation(len(pre))
    cur = pre.iloc[order][["postal_code", "geographic_unit_fips", "results_dem", "results_gop", "results_turnout"]].reset_index(drop=True)
    cur["percent_expected_vote"] = 0
    cur.loc[: n_reporting - 1, "percent_expected_vote"] = 100
    cur.loc[n_reporting:, ["results_dem", "results_gop", "results_turnout"]] = 0
    return cur


def run(pi_method, estimand, model_parameters, label):
    estimands = [estimand]
    cur = live_feed(90, seed=5)
    kwargs = dict(aggregates=AGGS, pi_method=pi_method, save_output=[])
    if pi_method == "bootstrap":
        kwargs["features"] = ["baseline_normalized_margin"]
    res = ModelClient().get_estimates(
        cur.copy(), ELECTION, "G", estimands, [0.7, 0.9], 100, "county",
        raw_config=config, preprocessed_data=pre.copy(), model_parameters=model_parameters, **kwargs,
    )
    unit = res["unit_data"].merge(pre[["geographic_unit_fips", "county_classification"]], on="geographic_unit_fips")
    non_modelled = unit[unit.unit_category.str.startswith("non-modeled")]
    cls = res["classification_data"]
    state = res["state_data"]
    rc = f"results_{estimand}"
    problems = []
    if pi_method != "bootstrap":
        feed_by_class = unit.groupby("county_classification")[rc].sum()
        table = cls.set_index("county_classification")[rc]
        diff = (feed_by_class - table.reindex(feed_by_class.index).fillna(0))
        diff = diff[diff != 0]
        if len(diff):
            problems.append(
                f"counted votes missing from the classification table, per class: {diff.to_dict()} "
                f"(state table counted={state[rc].iloc[0]:.0f}, classification table sums to {cls[rc].sum():.0f})"
            )
        if cls[f"pred_{estimand}"].sum() != state[f"pred_{estimand}"].iloc[0]:
            problems.append(
                f"classification predictions sum to {cls[f'pred_{estimand}'].sum():.0f}, "
                f"state prediction is {state[f'pred_{estimand}'].iloc[0]:.0f}"
            )
    else:
        # margin: counted margin of a group = sum of live margins / predicted two-party turnout of the group
        g = unit.groupby("county_classification").agg(m=("results_margin", "sum"), t=("pred_turnout", "sum"), p=("pred_margin", "sum"))
        t = cls.set_index("county_classification")
        bad = g[(abs(g.t - t.pred_turnout) > 1e-6)]
        if len(bad):
            problems.append(
                "classification pred_turnout is not the sum of the units of the class: "
                + str({k: (round(v, 1), round(t.pred_turnout[k], 1)) for k, v in bad.t.items()})
            )
        bad = g[abs(g.m / g.t - t.results_margin) > 1e-9]
        if len(bad):
            problems.append(f"classification counted margin differs from sum(units)/turnout for {list(bad.index)}")
    print(f"--- {label}: non-modelled units = {non_modelled[['geographic_unit_fips', 'unit_category', 'county_classification', rc]].values.tolist()}")
    for p in problems:
        print("    VIOLATION:", p)
    return bool(problems)


violated = False
# (a) nothing special at all: default model parameters. The default turnout outlier model flags a few units.
violated |= run("nonparametric", "turnout", {}, "nonparametric, default parameters")
violated |= run("gaussian", "turnout", {}, "gaussian, default parameters")
# (b) outlier models off, one reporting unit on the blocklist
feed = live_feed(90, seed=5)
biggest_reporting = feed[feed.percent_expected_vote == 100].sort_values("results_turnout").geographic_unit_fips.iloc[-1]
mp = {"fit_margin_outlier_model": False, "fit_turnout_outlier_model": False, "unit_blocklist": [biggest_reporting]}
violated |= run("nonparametric", "turnout", mp, f"nonparametric, outlier models off, reporting county {biggest_reporting} blocklisted")
violated |= run("bootstrap", "margin", dict(mp, B=20, lambda_=1.0), f"bootstrap, outlier models off, reporting county {biggest_reporting} blocklisted")

if violated:
    print("FAIL: the classification table drops the votes of non-modelled units (C01) and no longer sums to the state table (C02)")
    sys.exit(1)
print("OK")
sys.exit(0)
