"""
C01 / C11, handle_unreporting="zero": a feed row whose unit id equals the id of a baseline unit of ANOTHER state
(so it is not in the baseline: the baseline key is postal_code + geographic_unit_fips) disappears completely:
no row in the unit table, its votes in no aggregate table, no new state group. With handle_unreporting="drop" the same
row is handled correctly (an 'unexpected' unit row and a new state group appear).

Run:  cd /repo && PYTHONPATH=/repo/src /venv/bin/python _hunt/04_C01_C11.py
exit 1 = violation reproduced, exit 0 = property holds
"""
import json
import logging
import sys
import warnings

import numpy as np
import pandas as pd

warnings.filterwarnings("ignore")
logging.disable(logging.CRITICAL)

from elexmodel.client import ModelClient  # noqa: E402

ROOT = "/repo/tests/fixtures"
ELECTION = "2017-11-07_VA_G"
config = json.load(open(f"{ROOT}/config/{ELECTION}.json"))
pre = pd.read_csv(f"{ROOT}/data/{ELECTION}/G/data_county.csv", dtype={"geographic_unit_fips": str, "county_fips": str})
order = np.random.default_rng(3).permutation(len(pre))
# 80 counties fully in, the feed has no row for the others
feed = pre.iloc[order[:80]][["postal_code", "geographic_unit_fips", "results_dem", "results_gop", "results_turnout"]].reset_index(drop=True)
feed["percent_expected_vote"] = 100
not_in_feed = pre.geographic_unit_fips.iloc[order[-1]]
# a unit of state "XX" that happens to have the id of a VA county that is not in the feed (yet)
new_unit = pd.DataFrame({"postal_code": ["XX"], "geographic_unit_fips": [not_in_feed], "results_dem": [300], "results_gop": [100],
                         "results_turnout": [420], "percent_expected_vote": [100]})
feed2 = pd.concat([feed, new_unit], ignore_index=True)
assert not ((pre.postal_code == "XX") & (pre.geographic_unit_fips == not_in_feed)).any()  # not in the baseline
assert not feed2.geographic_unit_fips.duplicated().any()  # unit ids in the feed are unique

violated = False
for policy in ["drop", "zero"]:
    for pi_method in ["nonparametric", "gaussian"]:
        res = ModelClient().get_estimates(
            feed2.copy(), ELECTION, "G", ["turnout"], [0.9], 100, "county", raw_config=config, preprocessed_data=pre.copy(),
            aggregates=["postal_code", "county_fips", "unit"], pi_method=pi_method, handle_unreporting=policy, save_output=[],
        )
        unit, state = res["unit_data"], res["state_data"]
        rows = unit[unit.geographic_unit_fips == not_in_feed]
        total_counted = state.results_turnout.sum()
        lost = feed2.results_turnout.sum() - total_counted
        status = "ok"
        if lost != 0 or "XX" not in set(state.postal_code) or (rows.unit_category == "unexpected").sum() != 1:
            status = "VIOLATION"
            violated = True
        print(f"{policy:5s} {pi_method:13s}: {status}: feed total={feed2.results_turnout.sum()}, state tables total={total_counted:.0f}, "
              f"votes lost={lost:.0f}, states={sorted(set(state.postal_code))}, unit rows for {not_in_feed}: "
              f"{rows[['postal_code', 'unit_category', 'results_turnout']].values.tolist()}")

if violated:
    print("FAIL: votes that arrived in the feed were dropped (C01) / the unexpected unit added nothing (C11)")
    sys.exit(1)
print("OK")
sys.exit(0)
