"""
C17 (BootstrapElectionModel._extrapolate_unit_margin): with the installed pandas (3.x, allowed by setup.py: pandas>=2.2)
the extrapolation step cannot run at all, so no margin history - regular or irregular - ever reaches a prediction:
  * line 803  all_units[missing_columns] = versioned.data[missing_columns].max()   -> KeyError: 0
    (a list of columns is assigned from a Series that is indexed by column name; 'last_modified' is always missing
    from the current units, so this line always runs with a non-empty list)
  * lines 901/912  df.geographic_unit_fips inside groupby("geographic_unit_fips").apply(...) -> AttributeError
    (the grouping column is no longer part of the group frame)
Only the download of the stored versions from S3 is replaced here (no network), everything else is the real code path
ModelClient.get_estimates(..., model_parameters={"extrapolation": True}).

run: cd /repo && PYTHONPATH=/repo/src /venv/bin/python _hunt/03_C17.py
"""
import json, logging, os, sys, traceback, warnings
import numpy as np, pandas as pd
warnings.filterwarnings("ignore"); logging.disable(logging.CRITICAL)
from elexmodel.client import ModelClient
from elexmodel.handlers import s3

FIX = os.path.join(os.environ.get("ELEX_REPO", "/repo"), "tests", "fixtures")
EL = "2017-11-07_VA_G"
cfg = json.load(open(os.path.join(FIX, "config", EL + ".json")))
df = pd.read_csv(os.path.join(FIX, "data", EL, "G", "data_county.csv"), dtype={"geographic_unit_fips": str, "county_fips": str})
baseline = df.drop(columns=[c for c in df.columns if c.startswith("results_")])

pct = np.full(len(df), 100.0)
pct[::4] = 80.0

def snapshot(p):
    out = df[["postal_code", "geographic_unit_fips"]].copy()
    for c in ["dem", "gop", "turnout"]:
        out[f"results_{c}"] = np.floor(df[f"results_{c}"] * p / 100.0)
    out["percent_expected_vote"] = p
    return out

feed = snapshot(pct)

# the stored versions of results/G/county/current.csv: same columns as the feed plus last_modified (what S3VersionUtil.get returns)
versions = []
for k, frac in enumerate([0.25, 0.6, 0.97]):
    v = snapshot(np.floor(pct * frac))
    v["last_modified"] = pd.Timestamp("2017-11-07 20:00", tz="America/New_York") + pd.Timedelta(minutes=15 * k)
    versions.append(v)
versions = pd.concat(versions)

s3.S3VersionUtil.__init__ = lambda self, *a, **k: None
s3.S3VersionUtil.get = lambda self, path, sample=2: versions.copy()

try:
    res = ModelClient().get_estimates(
        feed.copy(), EL, "G", ["margin"], [0.9], 100, "county", raw_config=cfg, preprocessed_data=baseline.copy(),
        save_output=[], pi_method="bootstrap", features=["baseline_normalized_margin"], aggregates=["postal_code", "unit"],
        model_parameters={"B": 20, "lambda_": 1.0, "fit_margin_outlier_model": False, "fit_turnout_outlier_model": False,
                          "extrapolation": True})
except Exception as e:
    tb = traceback.extract_tb(e.__traceback__)
    where = [f"{os.path.basename(fr.filename)}:{fr.lineno} {fr.name}" for fr in tb if "elexmodel" in fr.filename]
    print(f"pandas {pd.__version__}: extrapolation run failed with {type(e).__name__}: {e}")
    print("  at", where[-1])
    print("VIOLATION C17: with extrapolation=True the run crashes in _extrapolate_unit_margin, no history is ever used")
    sys.exit(1)
print(res["state_data"].to_string())
print("extrapolation ran")
