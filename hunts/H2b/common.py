import json, os, sys, warnings, logging
import numpy as np, pandas as pd
warnings.filterwarnings("ignore")
logging.disable(logging.CRITICAL)
from elexmodel.client import ModelClient

ROOT = os.path.join(os.environ.get("ELEX_REPO", "/repo"), "tests", "fixtures")
ELECTION = "2017-11-07_VA_G"

def config():
    with open(os.path.join(ROOT, "config", ELECTION + ".json")) as f:
        return json.load(f)

def load(office="G", unit="county"):
    return pd.read_csv(os.path.join(ROOT, "data", ELECTION, office, f"data_{unit}.csv"),
        dtype={"geographic_unit_fips": str, "geographic_unit_type": str, "county_fips": str, "district": str})

def baseline(df):
    return df.drop(columns=[c for c in df.columns if c.startswith("results_")])

def feed(df, pct, seed=0):
    """pct: array of percent expected vote per row; results scaled"""
    f = df[["postal_code", "geographic_unit_fips"]].copy()
    pct = np.asarray(pct, dtype=float)
    for c in ["dem", "gop", "turnout"]:
        f[f"results_{c}"] = np.floor(df[f"results_{c}"].values * np.minimum(pct, 100) / 100.0)
    f["percent_expected_vote"] = pct
    return f

def run(feed_df, base_df, office="G", unit="county", estimands=["turnout"], pis=[0.9], thr=100, mp=None, **kw):
    mp = dict(fit_margin_outlier_model=False, fit_turnout_outlier_model=False) if mp is None else mp
    c = ModelClient()
    res = c.get_estimates(feed_df.copy(), ELECTION, office, estimands, pis, thr, unit, raw_config=config(),
        preprocessed_data=base_df.copy(), save_output=[], model_parameters=mp, **kw)
    return c, res
