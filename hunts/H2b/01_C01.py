"""
C01: a baseline unit that arrives in the feed with counted votes but without a percent_expected_vote (NaN)
disappears from the run: it is in none of the three unit lists, so it is missing from the unit table and its
votes are missing from every aggregate. Holds for both unreporting policies and all estimators.

run: cd /repo && PYTHONPATH=/repo/src /venv/bin/python _hunt/01_C01.py
"""
import json, logging, os, sys, warnings
import numpy as np, pandas as pd
warnings.filterwarnings("ignore"); logging.disable(logging.CRITICAL)
from elexmodel.client import ModelClient

FIX = os.path.join(os.environ.get("ELEX_REPO", "/repo"), "tests", "fixtures")
EL = "2017-11-07_VA_G"
cfg = json.load(open(os.path.join(FIX, "config", EL + ".json")))
df = pd.read_csv(os.path.join(FIX, "data", EL, "G", "data_county.csv"), dtype={"geographic_unit_fips": str, "county_fips": str})
baseline = df.drop(columns=[c for c in df.columns if c.startswith("results_")])

feed = df[["postal_code", "geographic_unit_fips", "results_dem", "results_gop", "results_turnout"]].copy()
feed["percent_expected_vote"] = 100.0
feed.loc[feed.index % 4 == 0, "percent_expected_vote"] = 0.0
feed.loc[feed.index % 4 == 0, ["results_dem", "results_gop", "results_turnout"]] = 0
# unit 1 (Albemarle, 42308 votes) is counted, the provider just has no expected vote estimate for it
victim = feed.geographic_unit_fips[1]
feed.loc[1, "percent_expected_vote"] = np.nan

failed = False
for pi_method, estimands, extra in [("nonparametric", ["turnout"], {}), ("gaussian", ["turnout"], {}),
                                    ("bootstrap", ["margin"], {"features": ["baseline_normalized_margin"]})]:
    for policy in ["drop", "zero"]:
        res = ModelClient().get_estimates(
            feed.copy(), EL, "G", estimands, [0.9], 100, "county", raw_config=cfg, preprocessed_data=baseline.copy(),
            save_output=[], pi_method=pi_method, handle_unreporting=policy, aggregates=["postal_code", "county_fips", "unit"],
            model_parameters={"fit_margin_outlier_model": False, "fit_turnout_outlier_model": False, "B": 20}, **extra)
        in_unit = (res["unit_data"].geographic_unit_fips == victim).sum()
        in_county = (res["county_data"].county_fips == victim).sum()
        msg = f"{pi_method}/{policy}: unit {victim} rows in unit table={in_unit}, rows in county table={in_county}"
        if estimands == ["turnout"]:
            msg += f"; state results_turnout={res['state_data'].results_turnout[0]:.0f} vs feed sum={feed.results_turnout.sum():.0f}"
            if res["state_data"].results_turnout[0] != feed.results_turnout.sum():
                failed = True
        if in_unit != 1 or in_county != 1:
            failed = True
        print(msg)
if failed:
    print("VIOLATION C01: a counted feed unit without percent_expected_vote is dropped from the unit table and from all aggregates")
    sys.exit(1)
print("property holds")
