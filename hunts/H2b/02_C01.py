"""
C01: a baseline unit id that occurs twice is only rejected when the unit is reporting. When the unit is below the
reporting threshold (partially counted) or not reporting, both rows go into the nonreporting units: the unit is in
the unit table twice and its counted votes (and its prediction) are counted twice in every aggregate.

run: cd /repo && PYTHONPATH=/repo/src /venv/bin/python _hunt/02_C01.py
"""
import json, logging, os, sys, warnings
import numpy as np, pandas as pd
warnings.filterwarnings("ignore"); logging.disable(logging.CRITICAL)
from elexmodel.client import ModelClient, ModelClientException

FIX = os.path.join(os.environ.get("ELEX_REPO", "/repo"), "tests", "fixtures")
EL = "2017-11-07_VA_G"
cfg = json.load(open(os.path.join(FIX, "config", EL + ".json")))
df = pd.read_csv(os.path.join(FIX, "data", EL, "G", "data_county.csv"), dtype={"geographic_unit_fips": str, "county_fips": str})
baseline = df.drop(columns=[c for c in df.columns if c.startswith("results_")])
baseline_dup = pd.concat([baseline, baseline.iloc[[1]]]).reset_index(drop=True)  # Albemarle twice

feed = df[["postal_code", "geographic_unit_fips", "results_dem", "results_gop", "results_turnout"]].copy()
feed["percent_expected_vote"] = 100.0

def run(feed):
    return ModelClient().get_estimates(
        feed.copy(), EL, "G", ["turnout"], [0.9], 100, "county", raw_config=cfg, preprocessed_data=baseline_dup.copy(),
        save_output=[], aggregates=["postal_code", "unit"],
        model_parameters={"fit_margin_outlier_model": False, "fit_turnout_outlier_model": False})

# duplicate unit fully reporting: rejected (this is the behaviour one expects)
try:
    run(feed)
    print("duplicate reporting unit was NOT rejected")
except ModelClientException as e:
    print("duplicate reporting unit rejected:", e)

# same baseline, the duplicated unit is at 60 percent
feed2 = feed.copy()
feed2.loc[1, ["results_dem", "results_gop", "results_turnout"]] = np.floor(feed2.loc[1, ["results_dem", "results_gop", "results_turnout"]].astype(float) * 0.6)
feed2.loc[1, "percent_expected_vote"] = 60.0
res = run(feed2)
n_rows = (res["unit_data"].geographic_unit_fips == feed2.geographic_unit_fips[1]).sum()
state = res["state_data"].results_turnout[0]
print(f"unit rows for {feed2.geographic_unit_fips[1]}: {n_rows}; state results_turnout={state:.0f}, feed sum={feed2.results_turnout.sum():.0f}")
if n_rows != 1 or state != feed2.results_turnout.sum():
    print("VIOLATION C01: duplicate baseline unit below the threshold is accepted, listed twice and its counted votes are double counted")
    sys.exit(1)
print("property holds")
