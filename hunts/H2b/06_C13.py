"""
C13 (crash, probably a design limit that is not enforced): with the bootstrap estimator the margin tables cannot be
produced as soon as a vote-count estimand is requested in the same run: get_unit_predictions ignores the estimand and
get_aggregate_predictions accesses raw_margin_df.pred_margin for every estimand.
_check_input_parameters accepts the request.

run: cd /repo && PYTHONPATH=/repo/src /venv/bin/python _hunt/06_C13.py
"""
import json, logging, os, sys, warnings
import numpy as np, pandas as pd
warnings.filterwarnings("ignore"); logging.disable(logging.CRITICAL)
from elexmodel.client import ModelClient

FIX = os.path.join(os.environ.get("ELEX_REPO", "/repo"), "tests", "fixtures")
EL = "2017-11-07_VA_G"
cfg = json.load(open(os.path.join(FIX, "config", EL + ".json")))
df = pd.read_csv(os.path.join(FIX, "data", EL, "G", "data_county.csv"), dtype={"geographic_unit_fips": str, "county_fips": str})
baseline = df.drop(columns=[c for c in df.columns if c.startswith("results_")])
feed = df[["postal_code", "geographic_unit_fips", "results_dem", "results_gop", "results_turnout"]].copy()
feed["percent_expected_vote"] = 100.0
feed.loc[feed.index % 4 == 0, "percent_expected_vote"] = 0.0
feed.loc[feed.index % 4 == 0, ["results_dem", "results_gop", "results_turnout"]] = 0

def run(estimands):
    return ModelClient().get_estimates(
        feed.copy(), EL, "G", estimands, [0.9], 100, "county", raw_config=cfg, preprocessed_data=baseline.copy(), save_output=[],
        pi_method="bootstrap", features=["baseline_normalized_margin"], aggregates=["postal_code", "unit"],
        model_parameters={"B": 20, "lambda_": 1.0, "fit_margin_outlier_model": False, "fit_turnout_outlier_model": False})

alone = run(["margin"])["state_data"]
print(alone.to_string())
failed = False
for estimands in (["margin", "dem"], ["turnout", "margin"]):
    try:
        both = run(estimands)["state_data"]
        same = np.allclose(alone[["pred_margin", "lower_0.9_margin", "upper_0.9_margin"]].values,
                           both[["pred_margin", "lower_0.9_margin", "upper_0.9_margin"]].values)
        print(estimands, "same margin columns:", same)
        failed |= not same
    except Exception as e:
        print(estimands, "->", type(e).__name__, e)
        failed = True
if failed:
    print("VIOLATION C13: the margin request is not served when another estimand is requested with the bootstrap estimator")
    sys.exit(1)
print("property holds")
