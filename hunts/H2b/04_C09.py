"""
C09 (derived quantities follow their definitions): Estimandizer.add_estimand_baselines only calls margin() when the
baseline has no baseline_margin column. margin() is also the place where baseline_weights is replaced by the two-party
vote (dem + gop). A preprocessed baseline that already carries the (correct, redundant) columns
baseline_margin = dem - gop and baseline_normalized_margin = (dem - gop) / (dem + gop) therefore keeps
baseline_weights = all-party turnout, while results_weights of the feed is the two-party vote: the turnout factor becomes
two-party / all-party, and unit predictions, predicted turnout and - through the division by the predicted turnout - even
the counted-votes column of the state change, although not a single input number changed.

run: cd /repo && PYTHONPATH=/repo/src /venv/bin/python _hunt/04_C09.py
"""
import json, logging, os, sys, warnings
import numpy as np, pandas as pd
warnings.filterwarnings("ignore"); logging.disable(logging.CRITICAL)
from elexmodel.client import ModelClient
from elexmodel.handlers.data.CombinedData import CombinedDataHandler

FIX = os.path.join(os.environ.get("ELEX_REPO", "/repo"), "tests", "fixtures")
EL = "2017-11-07_VA_G"
cfg = json.load(open(os.path.join(FIX, "config", EL + ".json")))
df = pd.read_csv(os.path.join(FIX, "data", EL, "G", "data_county.csv"), dtype={"geographic_unit_fips": str, "county_fips": str})
baseline = df.drop(columns=[c for c in df.columns if c.startswith("results_")])
baseline_pre = baseline.copy()
baseline_pre["baseline_margin"] = baseline_pre.baseline_dem - baseline_pre.baseline_gop
baseline_pre["baseline_normalized_margin"] = baseline_pre.baseline_margin / (baseline_pre.baseline_dem + baseline_pre.baseline_gop)

feed = df[["postal_code", "geographic_unit_fips", "results_dem", "results_gop", "results_turnout"]].copy()
feed["percent_expected_vote"] = 100.0
part = feed.index % 4 == 0
feed.loc[part, ["results_dem", "results_gop", "results_turnout"]] = np.floor(feed.loc[part, ["results_dem", "results_gop", "results_turnout"]] * 0.6)
feed.loc[part, "percent_expected_vote"] = 60.0

seen = {}
orig_init = CombinedDataHandler.__init__
def spy(self, *a, **k):
    orig_init(self, *a, **k)
    seen["data"] = self.data.copy()
CombinedDataHandler.__init__ = spy

def run(b):
    res = ModelClient().get_estimates(
        feed.copy(), EL, "G", ["margin"], [0.9], 100, "county", raw_config=cfg, preprocessed_data=b.copy(), save_output=[],
        pi_method="bootstrap", features=["baseline_normalized_margin"], aggregates=["postal_code", "unit"],
        model_parameters={"B": 20, "lambda_": 1.0, "fit_margin_outlier_model": False, "fit_turnout_outlier_model": False})
    return res, seen["data"]

r0, d0 = run(baseline)
r1, d1 = run(baseline_pre)
two_party = (d1.baseline_dem + d1.baseline_gop).values
print("baseline without margin columns: baseline_weights == dem+gop for all units:", bool(np.allclose(d0.baseline_weights, d0.baseline_dem + d0.baseline_gop)))
print("baseline with    margin columns: baseline_weights == dem+gop for all units:", bool(np.allclose(d1.baseline_weights, two_party)),
      "| == baseline_turnout:", bool(np.allclose(d1.baseline_weights, d1.baseline_turnout)))
print("max |turnout_factor difference| =", float(np.abs(d0.turnout_factor.values - d1.turnout_factor.values).max()))
print(r0["state_data"].to_string())
print(r1["state_data"].to_string())
bad = (not np.allclose(d1.baseline_weights, two_party)) or not np.allclose(
    r0["state_data"][["pred_margin", "results_margin", "pred_turnout"]].values, r1["state_data"][["pred_margin", "results_margin", "pred_turnout"]].values)
if bad:
    print("VIOLATION C09: with a precomputed baseline_margin the baseline weights are not the two-party vote; turnout factor, predictions and the state's counted-votes column change")
    sys.exit(1)
print("property holds")
