"""
C17 (minor): "is produced for every percent from 0 to the unit's latest percent".
The percent axis of a unit is rebuilt as turnout / turnout[-1] * percent_expected_vote[-1]. For a unit whose versions
all have zero votes (monotone, no impossible batch) but whose provider percent is above 0 (e.g. an empty or uncontested
unit that is reported as 100 percent in) the rebuilt axis is all zero, so only the row for 0 percent is produced.

run: cd /repo && PYTHONPATH=/repo/src /venv/bin/python _hunt/05_C17.py
"""
import logging, sys, warnings
import pandas as pd
warnings.filterwarnings("ignore"); logging.disable(logging.CRITICAL)
from elexmodel.handlers.data.Estimandizer import Estimandizer
from elexmodel.handlers.data.VersionedData import VersionedDataHandler

rows = [dict(postal_code="VA", geographic_unit_fips="51001", results_dem=0, results_gop=0, results_turnout=0,
             percent_expected_vote=p, last_modified=i) for i, p in enumerate([0, 50, 100])]
data, _ = Estimandizer().add_estimand_results(pd.DataFrame(rows), ["margin"], False)
handler = VersionedDataHandler("2017-11-07_VA_G", "G", "county")
out = handler.compute_versioned_margin_estimate(data=data)
print(out.to_string())
if out.error_type.eq("none").all() and len(out) != 101:
    print(f"VIOLATION C17: regular history with latest percent 100 produced {len(out)} row(s) instead of 101")
    sys.exit(1)
print("property holds")
