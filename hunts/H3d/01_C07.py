"""
C07 - a rejected stop list still yields a national summary, and that summary ignores the stop list.

Sequence (one ModelClient, bootstrap model, six-state statewide race built from the VA precinct fixture):
  1. get_estimates(..., stop_model_call=["AA"])                  -> fine; national summary has AA as a possible loss
  2. get_estimates(..., stop_model_call=["AA", "ZZ"])            -> rejected: "ZZ" is not a modelled contest
  3. get_national_summary_votes_estimates(...)                   -> must fail (the request was rejected, nothing was
                                                                   estimated); instead it returns a summary computed from
                                                                   the rejected run in which the stop-listed contest AA
                                                                   counts as decided.
Exit 1 when step 3 returns a table (and shows how it differs from step 1), exit 0 when it raises.
"""
import json
import logging
import os
import sys

import pandas as pd

logging.disable(logging.CRITICAL)
ROOT = os.environ.get("ELEX_REPO", "/repo")
FIX = os.path.join(ROOT, "tests", "fixtures")

from elexmodel.client import ModelClient  # noqa: E402
from elexmodel.handlers.data.LiveData import MockLiveDataHandler  # noqa: E402
from elexmodel.models.BootstrapElectionModel import BootstrapElectionModelException  # noqa: E402

E, OFFICE, UNIT = "2017-11-07_VA_G", "G", "precinct"
with open(os.path.join(FIX, "config", f"{E}.json")) as f:
    cfg = json.load(f)
df = pd.read_csv(
    os.path.join(FIX, "data", E, OFFICE, f"data_{UNIT}.csv"),
    dtype={"geographic_unit_fips": str, "geographic_unit_type": str, "county_fips": str, "district": str},
)
# six "states": one per county classification
states = {c: s for c, s in zip(sorted(df.county_classification.unique()), ["AA", "BB", "CC", "DD", "EE", "FF"])}
df["postal_code"] = df.county_classification.map(states)
cfg[E][1]["states"] = sorted(states.values())

handler = MockLiveDataHandler(E, OFFICE, UNIT, ["margin"], data=df.copy())
handler.shuffle(seed=1)
feed = handler.get_n_fully_reported(300)

kwargs = dict(
    raw_config=cfg,
    preprocessed_data=df.copy(),
    save_output=[],
    pi_method="bootstrap",
    features=["baseline_normalized_margin"],
    aggregates=["postal_code", "unit"],
    model_parameters={"B": 20, "fit_margin_outlier_model": False, "fit_turnout_outlier_model": False},
)
client = ModelClient()

# 1. valid stop list
res = client.get_estimates(feed.copy(), E, OFFICE, ["margin"], [0.9], 100, UNIT, stop_model_call=["AA"], **kwargs)
row = res["state_data"].set_index("postal_code").loc["AA"]
print("run 1, AA: pred %.4f  [%.4f, %.4f]" % (row["pred_margin"], row["lower_0.9_margin"], row["upper_0.9_margin"]))
nat_valid = client.get_national_summary_votes_estimates(None, 0, [0.9]).iloc[0].to_dict()
print("national summary with stop_model_call=['AA']:", nat_valid)

# 2. the same request, but the stop list also names a contest that is not modelled
try:
    client.get_estimates(feed.copy(), E, OFFICE, ["margin"], [0.9], 100, UNIT, stop_model_call=["AA", "ZZ"], **kwargs)
    print("the request with the unknown contest was not rejected at all")
    sys.exit(1)
except BootstrapElectionModelException as e:
    print("run 2 rejected:", str(e)[:110])

# 3. national summary after the rejected request
try:
    nat_after = client.get_national_summary_votes_estimates(None, 0, [0.9]).iloc[0].to_dict()
except Exception as e:  # this is what the statement asks for: an error instead of estimates
    print("national summary after the rejected request raises:", repr(e)[:150])
    sys.exit(0)

print("national summary after the REJECTED request:", nat_after)
print(
    "VIOLATION: the rejected request produced a national summary; the stop-listed contest AA "
    f"(possible loss in run 1: lower {nat_valid['lower_0.9']}) is treated as decided (lower {nat_after['lower_0.9']}, "
    f"upper {nat_after['upper_0.9']})"
)
sys.exit(1)
