"""
C19 - versions of ANOTHER object are listed as versions of the results file when its key starts with the file's path.

S3VersionUtil.list_versions passes the full path of the results file as `Prefix` to list_object_versions and keeps every
entry of the answer (s3.py:102-106). S3 answers a prefix query with the versions of every key that starts with the
prefix, so a sibling object such as ".../current.csv.bak" (".../current.csv.gz", ".../current.csv_old", ...) contributes
its versions to the listing of ".../current.csv":
  * the listing is not "exactly the versions of the file in the window";
  * get() asks for "<path> @ <version id of the other object>", which fails (logged, skipped);
  * when the window holds versions of the sibling only, the caller does not receive 'no data' (None) but a ValueError
    from pd.concat([]) - every attempted download failed.
The rows that are finally returned for the file itself are not affected (the exact key sorts before every longer key, so
its versions come first and keep their positions in versions[::sample]).

The storage service is replaced by a small in-memory object with S3's documented listing semantics (keys in
lexicographic order, newest version first within a key, prefix match, paging with key/version-id markers); the code under
test (S3VersionUtil.list_versions / get) is the real one.
Exit 1 when the listing differs from the versions of the requested file or the empty window raises, exit 0 otherwise.
"""
import datetime as dt
import logging
import os
import sys
from concurrent.futures import Future

os.environ.setdefault("AWS_ACCESS_KEY_ID", "x")
os.environ.setdefault("AWS_SECRET_ACCESS_KEY", "x")
os.environ.setdefault("AWS_DEFAULT_REGION", "us-east-1")
logging.disable(logging.CRITICAL)

from dateutil import tz  # noqa: E402

from elexmodel.handlers.s3 import S3VersionUtil  # noqa: E402

UTC = tz.gettz("UTC")


class FakeS3:
    def __init__(self, entries, page_size):
        self.entries = sorted(entries, key=lambda e: (e["Key"], -e["LastModified"].timestamp()))
        self.page_size = page_size

    def list_object_versions(self, Bucket, Prefix, KeyMarker=None, VersionIdMarker=None):
        ents = [e for e in self.entries if e["Key"].startswith(Prefix)]
        start = 0
        if KeyMarker is not None:
            start = 1 + next(i for i, e in enumerate(ents) if (e["Key"], e["VersionId"]) == (KeyMarker, VersionIdMarker))
        page = ents[start : start + self.page_size]
        resp = {"IsTruncated": start + self.page_size < len(ents)}
        resp["Versions"] = [{k: e[k] for k in ("Key", "VersionId", "LastModified", "Size")} for e in page]
        if resp["IsTruncated"]:
            resp["NextKeyMarker"], resp["NextVersionIdMarker"] = page[-1]["Key"], page[-1]["VersionId"]
        return resp


class FakeManager:
    def __init__(self, s3):
        self.s3 = s3

    def download(self, bucket, key, fileobj, extra_args=None, subscribers=None):
        future = Future()
        hit = [e for e in self.s3.entries if e["Key"] == key and e["VersionId"] == extra_args["VersionId"]]
        if hit:
            fileobj.write(hit[0]["body"])
            future.set_result(None)
        else:
            future.set_exception(RuntimeError("NoSuchVersion"))
        return future


PATH = "root/2024-11-05_USA_G/results/S/county/current.csv"
base = dt.datetime(2024, 11, 5, 20, 0, tzinfo=UTC)
entries = []
for i in range(6):  # six versions of the results file, one every 10 minutes
    body = f"geographic_unit_fips,results_dem,results_gop,results_turnout\n01001,{i},{i},{2 * i}\n".encode()
    entries.append(dict(Key=PATH, VersionId=f"own{i}", LastModified=base + dt.timedelta(minutes=10 * i), Size=len(body), body=body))
for i in range(3):  # three versions of a sibling object whose key starts with the path
    body = b"junk\n"
    entries.append(dict(Key=PATH + ".bak", VersionId=f"other{i}", LastModified=base + dt.timedelta(minutes=5 + 20 * i), Size=len(body), body=body))

start, end = base, base + dt.timedelta(minutes=60)
expected = [e["VersionId"] for e in sorted(entries, key=lambda e: e["LastModified"], reverse=True) if e["Key"] == PATH]

failed = False
for page_size in (2, 4, 1000):
    util = S3VersionUtil("bucket", start, end, "America/New_York")
    fake = FakeS3(entries, page_size)
    util.s3_client, util.manager = fake, FakeManager(fake)
    listed = [v["VersionId"] for v in util.list_versions(PATH)]
    df = util.get(PATH, sample=2)
    downloaded = ["own%d" % d for d in df.results_dem]
    print(f"page size {page_size}: listed {listed}")
    print(f"               downloaded {downloaded}; every 2nd version of the file would be {expected[::2]}")
    if listed != expected or downloaded != expected[::2]:
        failed = True

# a window in which the results file has no version at all, but the sibling has one
util = S3VersionUtil("bucket", base + dt.timedelta(minutes=41), base + dt.timedelta(minutes=49), "America/New_York")
fake = FakeS3(entries, 1000)
util.s3_client, util.manager = fake, FakeManager(fake)
try:
    res = util.get(PATH, sample=1)
    print("window without a version of the file ->", res if res is None else f"{len(res)} rows")
    failed = failed or res is not None
except Exception as e:
    print("window without a version of the file -> raises", repr(e)[:80], "(expected: None, 'no data')")
    failed = True

if failed:
    print("VIOLATION: the listing of the results file contains versions of another object (prefix match)")
    sys.exit(1)
sys.exit(0)
