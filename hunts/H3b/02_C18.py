"""
C18 (an estimate run persists only what its save_output option names; with no options nothing is written anywhere)
- violated through state that a *failed* call leaves behind on the client.

Sequence on one ModelClient, non-local environment (APP_ENV unset), S3 replaced by a recorder:

    1. get_estimates(..., save_output=[])            bootstrap run for election E, succeeds, nothing is written   (ok)
    2. get_national_summary_votes_estimates()        nothing is written                                           (ok)
    3. get_estimates(..., save_output=["results"])   rejected by the input validation (unknown feature): raises
                                                     ValueError before anything is computed or written           (ok)
    4. get_national_summary_votes_estimates()        -> writes <root>/<E>/predictions/.../nat_sum_data/current.csv

Step 4 persists the national summary of run 1, a run that asked for nothing to be persisted. The only run that asked
for 'results' never ran.

Root cause: client.py:227-228 sets self.save_results from the arguments of the *current* call as the very first thing
in get_estimates, before the arguments are validated (client.py:258) and long before self.model / self.results_handler
/ self.election_id are replaced (client.py:270, 394-403, 446). get_national_summary_votes_estimates (client.py:190)
then combines the new flag with the old model and the old results handler.

Exit code 1 = violation reproduced, 0 = property holds.
"""
import json
import logging
import os
import sys
import warnings

os.environ.setdefault("MODEL_S3_PATH_ROOT", "root")
os.environ.setdefault("MODEL_S3_BUCKET", "bucket")
os.environ.setdefault("DATA_ENV", "dev")
os.environ.pop("APP_ENV", None)  # unset = not local

warnings.filterwarnings("ignore")

import pandas as pd  # noqa: E402

import elexmodel.client as client_module  # noqa: E402
from elexmodel.client import ModelClient  # noqa: E402
from elexmodel.handlers import s3  # noqa: E402
from elexmodel.handlers.data.LiveData import MockLiveDataHandler  # noqa: E402

logging.disable(logging.CRITICAL)
assert client_module.APP_ENV != "local"

# record every remote write instead of talking to S3
PUTS = []


def _init(self, bucket_name, client=None):
    self.bucket_name = bucket_name
    self.client = None


def _put(self, filename, data, **kwargs):
    PUTS.append(filename)


s3.S3Util.__init__ = _init
s3.S3Util.put = _put

FIXTURES = "/repo/tests/fixtures"
ELECTION = "2017-11-07_VA_G"
with open(f"{FIXTURES}/config/{ELECTION}.json") as f:
    config = json.load(f)
baseline = pd.read_csv(
    f"{FIXTURES}/data/{ELECTION}/G/data_county.csv", dtype={"geographic_unit_fips": str, "county_fips": str}
)
handler = MockLiveDataHandler(ELECTION, "G", "county", ["margin"], data=baseline.copy())
handler.shuffle(seed=1)
feed = handler.get_n_fully_reported(60).reset_index(drop=True)


def estimates(client, save_output, features):
    return client.get_estimates(
        feed.copy(),
        ELECTION,
        "G",
        ["margin"],
        [0.9],
        100,
        "county",
        raw_config=json.loads(json.dumps(config)),
        preprocessed_data=baseline.copy(),
        pi_method="bootstrap",
        features=features,
        aggregates=["postal_code", "unit"],
        save_output=save_output,
        model_parameters={"B": 10, "fit_margin_outlier_model": False, "fit_turnout_outlier_model": False},
    )


client = ModelClient()
estimates(client, [], ["baseline_normalized_margin"])
writes_after_1 = list(PUTS)
client.get_national_summary_votes_estimates(None, 0, [0.9])
writes_after_2 = list(PUTS)
try:
    estimates(client, ["results"], ["not_a_feature"])
    failed = False
except ValueError as e:
    failed = True
    print("step 3 raised:", e)
writes_after_3 = list(PUTS)
try:
    client.get_national_summary_votes_estimates(None, 0, [0.9])
except client_module.ModelClientException as e:  # (added when filing the reproducer: the repaired client refuses the stale summary)
    print("step 4 refused:", e)
writes_after_4 = list(PUTS)

print("remote writes after step 1:", writes_after_1)
print("remote writes after step 2:", writes_after_2)
print("remote writes after step 3:", writes_after_3)
print("remote writes after step 4:", writes_after_4)

if failed and not writes_after_3 and writes_after_4:
    print(
        "VIOLATION (C18): the national summary of a run made with save_output=[] was written to remote storage, "
        "because a later call that failed its validation had already switched the client's save flag on."
    )
    sys.exit(1)
print("property holds")
sys.exit(0)
