"""
C12 (estimates are a deterministic function of the arguments, whatever ran before) - violated through the local
preprocessed-data cache that save_output=["data"] writes.

Sequence (all through ModelClient.get_estimates, bootstrap estimator, estimand "margin", preprocessed data read from
the local data directory exactly like the CLI does, i.e. preprocessed_data=None):

    A1 = run(save_output=[])          # reads <cwd>/data/<election>/<office>/data_county.csv (pristine file)
    B  = run(save_output=["data"])    # same arguments, only asks to keep a local copy of the preprocessed data
    A2 = run(save_output=[])          # arguments identical to A1

Expected: A1 == A2 (and B == A1, saving is not supposed to change anything).
Observed: A2 differs from A1 (state prediction, turnout prediction, both bounds, every nonreporting unit).

Root cause: PreprocessedDataHandler.save_data() (client.py:294-295) overwrites the local file with the frame *after*
Estimandizer.add_estimand_baselines() has added its derived columns (baseline_weights, baseline_margin,
baseline_normalized_margin, last_election_results_margin). When that file is loaded again, add_estimand_baselines
(Estimandizer.py:58-69) first resets baseline_weights to baseline_turnout (add_weights) and then skips margin()
because "baseline_margin" is already a column, so baseline_weights stays the *total* turnout instead of the two party
turnout dem+gop. turnout_factor, the regression weights and w_i in w_i*y_i*z_i all change silently.

Exit code 1 = violation reproduced, 0 = property holds.
"""
import json
import logging
import os
import shutil
import sys
import tempfile
import warnings

import pandas as pd

warnings.filterwarnings("ignore")

FIXTURES = "/repo/tests/fixtures"
ELECTION = "2017-11-07_VA_G"
OFFICE = "G"

from elexmodel.client import ModelClient  # noqa: E402
from elexmodel.handlers.data.LiveData import MockLiveDataHandler  # noqa: E402

logging.disable(logging.CRITICAL)

# the model looks for config / data below the current working directory: work in a scratch directory
workdir = tempfile.mkdtemp(prefix="hunt_c12_")
os.chdir(workdir)
os.makedirs(f"{workdir}/data/{ELECTION}/{OFFICE}")
local_file = f"{workdir}/data/{ELECTION}/{OFFICE}/data_county.csv"
shutil.copy(f"{FIXTURES}/data/{ELECTION}/{OFFICE}/data_county.csv", local_file)

with open(f"{FIXTURES}/config/{ELECTION}.json") as f:
    config = json.load(f)

baseline = pd.read_csv(local_file, dtype={"geographic_unit_fips": str, "county_fips": str})
handler = MockLiveDataHandler(ELECTION, OFFICE, "county", ["margin"], data=baseline.copy())
handler.shuffle(seed=1)
feed = handler.get_n_fully_reported(60).reset_index(drop=True)


def run(save_output):
    client = ModelClient()  # fresh client every time
    result = client.get_estimates(
        feed.copy(),
        ELECTION,
        OFFICE,
        ["margin"],
        [0.9],
        100,
        "county",
        raw_config=json.loads(json.dumps(config)),
        pi_method="bootstrap",
        features=["baseline_normalized_margin"],
        aggregates=["postal_code", "unit"],
        save_output=save_output,
        model_parameters={"B": 20, "fit_margin_outlier_model": False, "fit_turnout_outlier_model": False},
    )
    return result


columns_before = list(pd.read_csv(local_file, nrows=1).columns)
a1 = run([])
b = run(["data"])
columns_after = list(pd.read_csv(local_file, nrows=1).columns)
a2 = run([])

print("columns added to the local file by save_output=['data']:", [c for c in columns_after if c not in columns_before])
print("A1 state:", a1["state_data"].to_dict("records")[0])
print("B  state:", b["state_data"].to_dict("records")[0])
print("A2 state:", a2["state_data"].to_dict("records")[0])

same_b = all(a1[k].equals(b[k]) for k in a1)
same_a = all(a1[k].equals(a2[k]) for k in a1)
n_units_changed = int((a1["unit_data"]["pred_margin"].values != a2["unit_data"]["pred_margin"].values).sum())
print(f"B == A1: {same_b};  A2 == A1: {same_a};  unit predictions that changed between A1 and A2: {n_units_changed}")

shutil.rmtree(workdir, ignore_errors=True)

if not same_a:
    print(
        "VIOLATION (C12): two runs with identical arguments return different tables; the run with "
        "save_output=['data'] in between rewrote the local preprocessed file in a form that is read back differently."
    )
    sys.exit(1)
print("property holds")
sys.exit(0)
