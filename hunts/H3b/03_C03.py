"""
C03 (gaussian estimator: every unit / aggregate value is a finite whole number >= counted votes) - violated for the
accepted model parameter beta=0 (README: "beta | numeric | variance inflation"; the client only checks that beta is an
int or a float, client.py:121).

Input: VA 2017 governor, county level, estimand turnout, 60 of 133 counties reporting, pi_method="gaussian",
model_parameters={"beta": 0} (beta=0.0 and negative values behave the same).

Observed
  * unit table: lower_0.9_turnout and upper_0.9_turnout are NaN for every nonreporting unit
    (statement: all values are finite whole numbers, bounds >= counted votes);
  * state / county tables: the NaN is swallowed and the interval silently collapses to
    lower = upper = counted votes although 73 counties are still out and the prediction is far above the counted
    votes, i.e. the model reports certainty.

Root cause: GaussianModel._fit multiplies the bootstrapped sigma by beta (GaussianModel.py:111-118), sigma becomes 0
and scipy.stats.norm.ppf(q, loc, scale=0) is NaN:
  * units: GaussianElectionModel.py:55-65 -> lower/upper NaN, np.maximum(NaN, results) stays NaN (l.81-86);
  * aggregates: GaussianElectionModel.py:272-275 lb/ub NaN -> predicted_lower/upper NaN (l.288-293) ->
    .fillna({"predicted_lower": 0, "predicted_upper": 0}) (l.301) turns "unknown" into "no votes outstanding".

Exit code 1 = violation reproduced, 0 = property holds.
"""
import json
import logging
import sys
import warnings

import numpy as np
import pandas as pd

warnings.filterwarnings("ignore")

from elexmodel.client import ModelClient  # noqa: E402
from elexmodel.handlers.data.LiveData import MockLiveDataHandler  # noqa: E402

logging.disable(logging.CRITICAL)

FIXTURES = "/repo/tests/fixtures"
ELECTION = "2017-11-07_VA_G"
with open(f"{FIXTURES}/config/{ELECTION}.json") as f:
    config = json.load(f)
baseline = pd.read_csv(
    f"{FIXTURES}/data/{ELECTION}/G/data_county.csv", dtype={"geographic_unit_fips": str, "county_fips": str}
)
handler = MockLiveDataHandler(ELECTION, "G", "county", ["turnout"], data=baseline.copy())
handler.shuffle(seed=1)
feed = handler.get_n_fully_reported(60).reset_index(drop=True)

problems = []
for beta in (0, -1.0):
    result = ModelClient().get_estimates(
        feed.copy(),
        ELECTION,
        "G",
        ["turnout"],
        [0.9],
        100,
        "county",
        raw_config=json.loads(json.dumps(config)),
        preprocessed_data=baseline.copy(),
        pi_method="gaussian",
        aggregates=["postal_code", "county_fips", "unit"],
        save_output=[],
        model_parameters={"beta": beta, "fit_margin_outlier_model": False, "fit_turnout_outlier_model": False},
    )
    units = result["unit_data"]
    nonreporting = units[(units.reporting == 0) & (units.unit_category == "expected")]
    n_nan = int(nonreporting[["lower_0.9_turnout", "upper_0.9_turnout"]].isna().any(axis=1).sum())
    state = result["state_data"].iloc[0]
    print(f"beta={beta}: nonreporting units: {len(nonreporting)}, of which with NaN bounds: {n_nan}")
    print(
        f"beta={beta}: state pred={state.pred_turnout:.0f} counted={state.results_turnout:.0f} "
        f"lower={state['lower_0.9_turnout']:.0f} upper={state['upper_0.9_turnout']:.0f}"
    )
    if n_nan > 0:
        problems.append(f"beta={beta}: {n_nan} nonreporting units have NaN interval bounds")
    if (
        len(nonreporting) > 0
        and state["lower_0.9_turnout"] == state["upper_0.9_turnout"] == state.results_turnout
        and state.pred_turnout > state.results_turnout
    ):
        problems.append(
            f"beta={beta}: state interval collapsed to the counted votes ({state.results_turnout:.0f}) with "
            f"{len(nonreporting)} units outstanding and a prediction of {state.pred_turnout:.0f}"
        )
    for name, table in result.items():
        values = table[["pred_turnout", "lower_0.9_turnout", "upper_0.9_turnout"]].values.astype(float)
        if not np.isfinite(values).all():
            problems.append(f"beta={beta}: non-finite values in {name}")

if problems:
    print("VIOLATION (C03):")
    for p in problems:
        print("  -", p)
    sys.exit(1)
print("property holds")
sys.exit(0)
