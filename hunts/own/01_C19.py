"""
C19: "Listing the stored versions of a results file returns exactly the versions whose modification time lies within the requested
window, each once, however the storage service pages its newest-first listing."

list_object_versions pages over versions AND delete markers. A page that holds delete markers only comes without a "Versions" key
while IsTruncated is still true. list_versions stopped there ("len(versions) > 0" was part of the condition to go on), so every
version on the later pages was lost, whatever the window.

Listing used here (newest first), page size 2:
   page 1: v5 (12:00), v4 (11:00)            truncated
   page 2: two delete markers only           truncated
   page 3: v3 (09:00), v2 (08:00)            truncated
   page 4: v1 (07:00)
Window [08:00, 12:00]  ->  expected v5, v4, v3, v2.

Written by me while reviewing the assumptions of C19.R2 (a round-2 hunter had mentioned the guard in passing); not a sub-agent script.
Exit 1 = violation, 0 = property holds.  Run: PYTHONPATH=/repo/src /venv/bin/python /verif/hunts/own/01_C19.py
"""
import sys
from datetime import datetime, timezone

from elexmodel.handlers import s3


def t(h):
    return datetime(2024, 11, 5, h, 0, tzinfo=timezone.utc)


def v(i, h):
    return {"Key": "f.csv", "VersionId": f"v{i}", "LastModified": t(h)}


PAGES = {
    None: {"Versions": [v(5, 12), v(4, 11)], "IsTruncated": True, "NextKeyMarker": "f.csv", "NextVersionIdMarker": "m1"},
    "m1": {"DeleteMarkers": [{"Key": "f.csv", "VersionId": "d2"}, {"Key": "f.csv", "VersionId": "d1"}], "IsTruncated": True,
           "NextKeyMarker": "f.csv", "NextVersionIdMarker": "m2"},
    "m2": {"Versions": [v(3, 9), v(2, 8)], "IsTruncated": True, "NextKeyMarker": "f.csv", "NextVersionIdMarker": "m3"},
    "m3": {"Versions": [v(1, 7)], "IsTruncated": False},
}


class FakeS3:
    def list_object_versions(self, Bucket, Prefix, **kwargs):
        return {k: (list(x) if isinstance(x, list) else x) for k, x in PAGES[kwargs.get("VersionIdMarker")].items()}


util = s3.S3VersionUtil.__new__(s3.S3VersionUtil)
util.bucket_name = "b"
util.s3_client = FakeS3()
util.start_date, util.end_date, util.tz = t(8), t(12), "UTC"
got = [x["VersionId"] for x in util.list_versions("f.csv")]
print("listed:", got)
if got != ["v5", "v4", "v3", "v2"]:
    print("VIOLATION C19: versions after a page of delete markers are missing from the window [08:00, 12:00]")
    sys.exit(1)
print("property holds")
