"""
C16 - "exactly one observed level per fixed effect [is] absorbed by the intercept ... with and without separate-state models"

Multi-state bootstrap run, fixed_effects=["postal_code"] (the documented companion of states_for_separate_model: the
state dummies are supposed to be the separate states' intercepts).  When the separately modelled state is the
alphabetically first state with reporting units, its dummy is the one the Featurizer drops "because the intercept
stands in for it" - but the Featurizer has also set the intercept of exactly these rows to 0.  The fitting rows and the
prediction rows of that state then have NO constant term at all (intercept 0, every postal_code dummy 0): its level is
absorbed by nothing.  Numerically the turnout-factor regression of that state is forced through the origin and the
turnout predictions of *every* state collapse.

Exits 1 when the violation is observed.
"""
import numpy as np
import pandas as pd
from common import synth, config, feed, fail, ok

from elexmodel.client import ModelClient
from elexmodel.handlers.data.Featurizer import Featurizer

STATES = ["AA", "BB", "CC"]
EID = "2024-11-05_USA_G"
df = synth(STATES, 40, seed=7)
cfg = config(EID, "S", STATES, ["county"])
rng = np.random.default_rng(0)
cur = feed(df, None, rng.uniform(size=len(df)) < 0.5)  # every state has reporting and nonreporting counties


def run(separate):
    client = ModelClient()
    res = client.get_estimates(
        cur.copy(), EID, "S", ["margin"], [0.9], 100, "county", raw_config=cfg, preprocessed_data=df.copy(),
        save_output=[], pi_method="bootstrap", aggregates=["postal_code", "unit"],
        features=["baseline_normalized_margin"], fixed_effects=["postal_code"],
        model_parameters={"B": 50, "lambda_": 0.01, "states_for_separate_model": separate,
                          "fit_margin_outlier_model": False, "fit_turnout_outlier_model": False},
    )
    return client, res


def constant_term_check(client, separate):
    """rebuild the design matrices exactly as BootstrapElectionModel.compute_bootstrap_errors does"""
    rh = client.results_handler
    all_units = pd.concat([rh.reporting_units, rh.nonreporting_units, rh.unexpected_units], axis=0)
    f = Featurizer(["baseline_normalized_margin"], ["postal_code"], states_for_separate_model=separate)
    x_all = f.prepare_data(all_units, center_features=False, scale_features=False, add_intercept=True)
    n_train, n_test = len(rh.reporting_units), len(rh.nonreporting_units)
    x_fit = f.filter_to_active_features(x_all[:n_train])
    x_pred = f.generate_holdout_data(x_all[n_train:n_train + n_test])
    dummies = [c for c in x_fit.columns if c.startswith("postal_code_")]
    out = {}
    for name, x, units in [("fit", x_fit, rh.reporting_units), ("predict", x_pred, rh.nonreporting_units)]:
        const = x["intercept"].values + x[dummies].sum(axis=1).values  # the constant term a row sees
        out[name] = pd.Series(const, index=units.postal_code.values).groupby(level=0).min().to_dict()
    return f.intercept_column, list(x_fit.columns), out


def turnout_factor(res):
    u = res["unit_data"].merge(df[["geographic_unit_fips", "baseline_dem", "baseline_gop"]])
    u = u[(u.reporting == 0) & (u.unit_category == "expected")]
    return (u.pred_turnout / (u.baseline_dem + u.baseline_gop)).groupby(u.postal_code).mean().round(3).to_dict()


client_ok, res_ok = run(["BB"])
client_bad, res_bad = run(["AA"])
dropped_ok, cols_ok, const_ok = constant_term_check(client_ok, ["BB"])
dropped_bad, cols_bad, const_bad = constant_term_check(client_bad, ["AA"])
print("separate state BB: columns", cols_ok, "level absorbed by intercept:", dropped_ok)
print("   constant term seen by the rows of each state:", const_ok)
print("   mean predicted turnout factor of nonreporting counties:", turnout_factor(res_ok))
print("separate state AA: columns", cols_bad, "level absorbed by intercept:", dropped_bad)
print("   constant term seen by the rows of each state:", const_bad)
print("   mean predicted turnout factor of nonreporting counties:", turnout_factor(res_bad))
print("   (actual turnout factor of those counties is about",
      round(float(((df.results_dem + df.results_gop) / (df.baseline_dem + df.baseline_gop)).mean()), 3), ")")

no_constant = [s for part in const_bad.values() for s, v in part.items() if v == 0]
if no_constant:
    fail(
        f"with states_for_separate_model=['AA'] and fixed_effects=['postal_code'] the level {dropped_bad} is 'absorbed by "
        f"the intercept', but the intercept of the AA rows is 0: rows of {sorted(set(no_constant))} have no constant term "
        f"in the fitting and in the prediction matrix; predicted turnout factors {turnout_factor(res_bad)} instead of "
        f"{turnout_factor(res_ok)} when the separate state is BB"
    )
ok()
