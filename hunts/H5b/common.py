"""Helpers shared by the hunt scripts (synthetic elections driven through the real ModelClient)."""
import logging
import os
import sys
import warnings

import numpy as np
import pandas as pd

HERE = os.path.dirname(os.path.abspath(__file__))
ROOT = os.environ.get("ELEX_REPO", "/repo")
FIX = os.path.join(ROOT, "tests", "fixtures")

logging.disable(logging.CRITICAL)
warnings.filterwarnings("ignore", category=FutureWarning)
warnings.filterwarnings("ignore", category=RuntimeWarning)

STR = {"geographic_unit_fips": str, "geographic_unit_type": str, "county_fips": str, "district": str}


def fixture(path):
    return pd.read_csv(os.path.join(FIX, "data", path), dtype=STR)


def va_config():
    import json

    with open(os.path.join(FIX, "config", "2017-11-07_VA_G.json")) as f:
        return json.load(f)


def synth(states, n_per_state, seed=0, office="S", n_counties=None, districts=None, classes=("rural", "urban", "suburban")):
    """a synthetic baseline + results frame, counties (or county-districts) of several states"""
    rng = np.random.default_rng(seed)
    rows = []
    for s_i, st in enumerate(states):
        for i in range(n_per_state):
            county = f"{s_i + 10}{i:03d}"
            w = int(rng.integers(500, 20000))
            share = rng.uniform(0.3, 0.7)
            bd = int(w * share)
            bg = w - bd
            swing = rng.normal(0.02 * (s_i - 1), 0.03)
            tf = rng.uniform(0.8, 1.2)
            rd = int(w * tf * min(max(share + swing, 0.02), 0.98))
            rg = int(w * tf) - rd
            row = dict(
                postal_code=st,
                county_fips=county,
                geographic_unit_fips=county,
                geographic_unit_type="county",
                county_classification=classes[i % len(classes)],
                baseline_dem=bd,
                baseline_gop=bg,
                baseline_turnout=bd + bg + int(rng.integers(0, 50)),
                results_dem=rd,
                results_gop=rg,
                results_turnout=rd + rg + int(rng.integers(0, 50)),
                median_household_income=float(rng.uniform(3e4, 1e5)),
                percent_bachelor_or_higher=float(rng.uniform(0.1, 0.6)),
            )
            if districts:
                d = str(districts[i % len(districts)])
                row["district"] = d
                row["geographic_unit_fips"] = f"{d}_{county}"
                row["geographic_unit_type"] = "county-district"
            rows.append(row)
    return pd.DataFrame(rows)


def config(election_id, office, states, unit_types):
    return {
        election_id: [
            {
                "office": office,
                "states": list(states),
                "geographic_unit_types": list(unit_types),
                "historical_election": [],
                "features": ["median_household_income", "percent_bachelor_or_higher"],
                "aggregates": ["postal_code", "county_classification", "county_fips", "district", "unit"],
                "fixed_effect": ["postal_code", "county_fips", "county_classification", "district"],
            }
        ]
    }


def feed(df, estimands, reporting_mask, pct_nonreporting=0):
    """current data: results of the reporting rows, zero for the others"""
    cols = ["postal_code", "geographic_unit_fips", "results_dem", "results_gop", "results_turnout"]
    cur = df[cols].copy()
    mask = np.asarray(reporting_mask, dtype=bool)
    for c in ["results_dem", "results_gop", "results_turnout"]:
        cur.loc[~mask, c] = 0
    cur["percent_expected_vote"] = np.where(mask, 100, pct_nonreporting)
    return cur


def fail(msg):
    print("VIOLATION:", msg)
    sys.exit(1)


def ok(msg="property holds"):
    print("OK:", msg)
    sys.exit(0)
