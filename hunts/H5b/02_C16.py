"""
C16 - the strata design matrix of the bootstrap model (fixed effects = strata, with an intercept, built by the
Featurizer) "with ... separate-state models": every level must either have its indicator or be the one level absorbed by
the intercept.

BootstrapElectionModel._get_strata hands states_for_separate_model to the strata Featurizer.  That Featurizer has no
features, so the only effect is that the intercept of the separate state's rows is set to 0.  A unit of that state
in the reference stratum (the county_classification level that was dropped for the intercept) gets the all-zero row:
no intercept, no indicator.  _estimate_strata_dist then takes "the betas where the row has a 1" - there are none - and the
error distribution of this stratum is the constant 0 for every quantile: these units get no unit-level noise at all
(margin and turnout), and the other strata of that state get the *difference* coefficient alone as their distribution.

The script runs the real client (postal_code fixed effect, separate state BB: the configuration in which the point
regression itself is fine) and only observes what the model computes.  Exits 1 when the violation is observed.
"""
import numpy as np
import pandas as pd
from common import synth, config, feed, fail, ok

from elexmodel.client import ModelClient
from elexmodel.models.BootstrapElectionModel import BootstrapElectionModel

STATES = ["AA", "BB", "CC"]
EID = "2024-11-05_USA_G"
df = synth(STATES, 40, seed=7)
cfg = config(EID, "S", STATES, ["county"])
rng = np.random.default_rng(0)
cur = feed(df, None, rng.uniform(size=len(df)) < 0.5)

captured = []
original = BootstrapElectionModel._estimate_strata_dist


def spy(self, x_train, x_train_strata, x_test, x_test_strata, delta_hat, lb, ub):
    ppfs, cdfs = original(self, x_train, x_train_strata, x_test, x_test_strata, delta_hat, lb, ub)
    captured.append((x_train_strata, x_test_strata, ppfs))
    return ppfs, cdfs


BootstrapElectionModel._estimate_strata_dist = spy  # observation only, the original is called unchanged


def run(separate):
    captured.clear()
    client = ModelClient()
    res = client.get_estimates(
        cur.copy(), EID, "S", ["margin"], [0.9], 100, "county", raw_config=cfg, preprocessed_data=df.copy(),
        save_output=[], pi_method="bootstrap", aggregates=["postal_code", "unit"],
        features=["baseline_normalized_margin"], fixed_effects=["postal_code"],
        model_parameters={"B": 200, "lambda_": 0.01, "states_for_separate_model": separate,
                          "fit_margin_outlier_model": False, "fit_turnout_outlier_model": False},
    )
    return client, res, list(captured)


def describe(client, res, cap, label):
    x_train_strata, x_test_strata, ppfs_y = cap[0]
    _, _, ppfs_z = cap[1]
    rh = client.results_handler
    print(f"--- states_for_separate_model={label}; strata columns {list(x_test_strata.columns)}")
    q = np.array([0.05, 0.25, 0.5, 0.75, 0.95])
    degenerate = []
    for key in sorted(ppfs_y):
        py, pz = ppfs_y[key](q), ppfs_z[key](q)
        rows = (x_test_strata.values == np.array(key)).all(axis=1)
        states = sorted(set(rh.nonreporting_units.postal_code.values[rows]))
        classes = sorted(set(rh.nonreporting_units.county_classification.values[rows]))
        print(f"   stratum {tuple(int(k) for k in key)} states {states} classes {classes}: margin error quantiles "
              f"{np.round(py, 3)}, turnout error quantiles {np.round(pz, 3)}")
        if rows.any() and np.allclose(py, 0) and np.allclose(pz, 0):
            degenerate.append((tuple(int(k) for k in key), states, classes, int(rows.sum())))
    u = res["unit_data"].merge(df[["geographic_unit_fips", "county_classification"]])
    u = u[(u.reporting == 0) & (u.unit_category == "expected")]
    width = (u["upper_0.9_margin"] - u["lower_0.9_margin"]).groupby([u.postal_code, u.county_classification]).mean()
    print("   mean width of the 90% unit intervals:", width.round(0).to_dict())
    return degenerate, x_train_strata, x_test_strata


deg_none, _, _ = describe(*run([]), "[]")
deg_bb, x_tr, x_te = describe(*run(["BB"]), "['BB']")

zero_rows_fit = int((x_tr.values == 0).all(axis=1).sum())
zero_rows_pred = int((x_te.values == 0).all(axis=1).sum())
print("all-zero rows (no intercept, no stratum indicator) in the strata matrix: fitting", zero_rows_fit, "prediction", zero_rows_pred)
if deg_bb and not deg_none:
    fail(
        f"with a separate model for BB the strata matrix has {zero_rows_fit} fitting and {zero_rows_pred} prediction rows "
        f"without intercept and without indicator; stratum/strata {deg_bb} (key, states, classes, nonreporting units) get "
        "an error distribution that is 0 at every quantile, i.e. no unit level noise for these units"
    )
ok()
