"""
C11 - "Adding to the feed a unit that is not in the baseline ... leaves every other number in every table unchanged -
creating a new group if its county or district had no baseline units.  It never causes the run to fail"
C08 - the national summary "is a function of the top-level contests only".

House of Delegates race (office Y, county-district units), bootstrap model.  One unexpected unit whose id carries a district
number that has no baseline units (a mis-keyed or re-districted precinct: "977_51999", 100 dem / 40 gop votes) is added
to the feed.  The district table gets a new row for it, which C11 allows - but the national summary treats that row as
a contest of the election:
  * with the default weights (nat_sum_data_dict=None: one seat per contest) the predicted number of seats and both bounds
    go up by one seat that does not exist;
  * with the weight dictionary that is correct for the election (one entry per real district) the summary call that
    worked without the unit now raises BootstrapElectionModelException.

Exits 1 when the violation is observed.
"""
import numpy as np
import pandas as pd
from common import fixture, va_config, feed, fail, ok

from elexmodel.client import ModelClient

df = fixture("2017-11-07_VA_G/Y/data_county-district.csv")
rng = np.random.default_rng(3)
cur = feed(df, None, rng.uniform(size=len(df)) < 0.5)
unexpected = pd.DataFrame(
    [{"postal_code": "VA", "geographic_unit_fips": "977_51999", "results_dem": 100, "results_gop": 40,
      "results_turnout": 150, "percent_expected_vote": 100}]
)
cur_plus = pd.concat([cur, unexpected], ignore_index=True)
real_contests = sorted(("VA_" + df.district).unique())
weights = {c: 1 for c in real_contests}


def run(current):
    client = ModelClient()
    res = client.get_estimates(
        current.copy(), "2017-11-07_VA_G", "Y", ["margin"], [0.9], 100, "county-district", raw_config=va_config(),
        preprocessed_data=df.copy(), save_output=[], pi_method="bootstrap", aggregates=["postal_code", "district", "unit"],
        features=["baseline_normalized_margin"],
        model_parameters={"B": 50, "fit_margin_outlier_model": False, "fit_turnout_outlier_model": False},
    )
    return client, res


problems = []
client_a, res_a = run(cur)
client_b, res_b = run(cur_plus)
default_a = client_a.get_national_summary_votes_estimates(None, 0, [0.9]).iloc[0].to_dict()
default_b = client_b.get_national_summary_votes_estimates(None, 0, [0.9]).iloc[0].to_dict()
print(len(real_contests), "districts in the election; district table rows:", len(res_a["district_data"]), "->", len(res_b["district_data"]))
print("seats, default weights, without the unit:", default_a)
print("seats, default weights, with the unit   :", default_b)
if default_a != default_b:
    problems.append(f"default weights: national summary changed from {default_a} to {default_b}")

explicit_a = client_a.get_national_summary_votes_estimates(dict(weights), 0, [0.9]).iloc[0].to_dict()
print("seats, explicit weights for the", len(weights), "districts, without the unit:", explicit_a)
try:
    explicit_b = client_b.get_national_summary_votes_estimates(dict(weights), 0, [0.9]).iloc[0].to_dict()
    print("seats, explicit weights, with the unit:", explicit_b)
    if explicit_a != explicit_b:
        problems.append(f"explicit weights: national summary changed from {explicit_a} to {explicit_b}")
except Exception as e:  # noqa
    print("with the unit the same call raises:", type(e).__name__, e)
    problems.append(f"explicit weights: the summary fails with {type(e).__name__}: {e}")

if problems:
    fail("one unexpected unit in a district without baseline units changes / breaks the national summary: " + "; ".join(problems))
ok()
