"""
C09 violation (pass-through part): baseline units that are excluded from the fit (blocklisted, zero baseline,
strange turnout factor, outlier) are supposed to be "passed through as counted votes".  In the county_classification
table their votes are silently left out, although -- unlike for truly unexpected units -- their classification is
known from the baseline.  The classification table therefore does not add up to the state table.

Root cause: BaseElectionModel._get_reporting_aggregate_votes (src/elexmodel/models/BaseElectionModel.py:48-50) skips
the whole `unexpected_units` frame when "county_classification" is one of the keys; that frame also holds all
"non-modeled: ..." baseline units (CombinedData.py:136).  BootstrapElectionModel.get_aggregate_predictions /
get_aggregate_prediction_intervals do the same (BootstrapElectionModel.py:1507-1508, 1663-1664).

Run:  cd /repo && PYTHONPATH=/repo/src /venv/bin/python _hunt/04_C09.py
"""
import json
import logging
import sys

import numpy as np
import pandas as pd

logging.disable(logging.CRITICAL)
from elexmodel.client import ModelClient  # noqa: E402

FIX = "/repo/tests/fixtures"
ELECTION = "2017-11-07_VA_G"
cfg = json.load(open(f"{FIX}/config/{ELECTION}.json"))
df = pd.read_csv(f"{FIX}/data/{ELECTION}/G/data_county.csv", dtype={"geographic_unit_fips": str, "county_fips": str})
RESULTS = ["results_turnout", "results_dem", "results_gop"]

rng = np.random.default_rng(0)
feed = df[["postal_code", "geographic_unit_fips"] + RESULTS].copy()
reporting = rng.random(len(feed)) < 0.6
feed["percent_expected_vote"] = np.where(reporting, 100, 0)
feed.loc[~reporting, RESULTS] = 0
blocklisted = feed.loc[reporting, "geographic_unit_fips"].iloc[:3].tolist()  # three fully reported baseline units

result = ModelClient().get_estimates(
    feed.copy(),
    ELECTION,
    "G",
    ["turnout"],
    [0.9],
    100,
    "county",
    raw_config=json.loads(json.dumps(cfg)),
    preprocessed_data=df.drop(columns=RESULTS).copy(),
    save_output=[],
    pi_method="gaussian",
    aggregates=["postal_code", "county_classification", "unit"],
    model_parameters={
        "unit_blocklist": blocklisted,
        "fit_margin_outlier_model": False,
        "fit_turnout_outlier_model": False,
    },
)
units = result["unit_data"]
excluded = units[units.unit_category.str.startswith("non-modeled")]
print("excluded baseline units:", excluded[["geographic_unit_fips", "unit_category", "results_turnout"]].to_dict("records"))
state = result["state_data"].iloc[0]
classes = result["classification_data"]
print(f"state table          : results={state.results_turnout:.0f} pred={state.pred_turnout:.0f}")
print(f"classification table : results={classes.results_turnout.sum():.0f} pred={classes.pred_turnout.sum():.0f}")
missing = state.results_turnout - classes.results_turnout.sum()
print(f"votes missing from the classification table: {missing:.0f}  (votes of the excluded units: {excluded.results_turnout.sum():.0f})")
if missing != 0:
    print("C09 VIOLATED: excluded baseline units are not passed through as counted votes in the classification table")
    sys.exit(1)
print("C09 holds for these inputs")
sys.exit(0)
