"""
C10 (historical evaluation part): "In a historical evaluation the historical results of units that are not yet
reporting are hidden from the model ... for all three estimators".

(a) HistoricalModelClient.get_historical_evaluation cannot run the bootstrap estimator at all: it dies with
    KeyError: 'results_normalized_margin'.
(b) The hiding is incomplete: only results_<estimand> is zeroed, results_turnout (which becomes the units' weights /
    turnout factor) of not-yet-reporting units is forwarded with its full historical value whenever "turnout" is
    not itself one of the estimands.

Root cause: HistoricalModelClient._format_historical_current_data (src/elexmodel/client.py:608-624) forwards only
results_<estimand> + results_turnout and zeroes only results_<estimand> (loop at :613-621).  For "margin" the
columns results_dem / results_gop / results_weights / results_normalized_margin are dropped; CombinedDataHandler ->
Estimandizer.add_estimand_results then sees that results_margin already exists, skips margin()
(Estimandizer.py:25-28), so results_normalized_margin is never created and results_weights is set to the TOTAL
turnout by add_weights (Estimandizer.py:19-20) instead of dem+gop.  BootstrapElectionModel.compute_bootstrap_errors
(BootstrapElectionModel.py:1062) then fails.

The historical client only reads config / data from <cwd>/config and <cwd>/data, so this script builds a scratch
directory under _hunt/hist_work and chdirs into it (no network needed).

Run:  cd /repo && PYTHONPATH=/repo/src /venv/bin/python _hunt/05_C10.py
"""
import json
import logging
import os
import sys

import numpy as np
import pandas as pd

logging.disable(logging.CRITICAL)
from elexmodel.client import HistoricalModelClient  # noqa: E402

FIX = "/repo/tests/fixtures"
CURRENT, PAST = "2017-11-07_VA_G", "2013-11-05_VA_G"
WORK = "/repo/_hunt/hist_work"
cfg = json.load(open(f"{FIX}/config/{CURRENT}.json"))
va = pd.read_csv(f"{FIX}/data/{CURRENT}/G/data_county.csv", dtype={"geographic_unit_fips": str, "county_fips": str})

os.makedirs(f"{WORK}/config", exist_ok=True)
os.makedirs(f"{WORK}/data/{PAST}/G", exist_ok=True)
current_cfg = json.loads(json.dumps(cfg))
for sub in current_cfg[CURRENT]:
    sub["historical_election"] = [PAST]
json.dump(current_cfg, open(f"{WORK}/config/{CURRENT}.json", "w"))
json.dump({PAST: cfg[CURRENT]}, open(f"{WORK}/config/{PAST}.json", "w"))
va.to_csv(f"{WORK}/data/{PAST}/G/data_county.csv", index=False)  # the "past" election re-uses the VA fixture
os.chdir(WORK)

rng = np.random.default_rng(0)
current = va[["postal_code", "geographic_unit_fips"]].copy()
current["percent_expected_vote"] = np.where(rng.random(len(current)) < 0.6, 100, 60)
waiting = current[current.percent_expected_vote < 100].geographic_unit_fips

failed = False

# (b) what is handed to the model for units that are not reporting yet
client = HistoricalModelClient()
client.aggregates = ["postal_code", "unit"]
for estimands in (["margin"], ["dem"]):
    baselines = {e: e for e in estimands}
    historical_feed, _ = client._format_historical_current_data(current, PAST, "G", "county", estimands, baselines, 100)
    hidden = historical_feed[historical_feed.geographic_unit_fips.isin(waiting)]
    leaked = hidden.results_turnout.sum()
    print(f"estimands={estimands}: columns given to the model: {list(historical_feed.columns)}")
    print(f"   not-yet-reporting units: sum results_{estimands[0]} = {hidden[f'results_{estimands[0]}'].sum():.0f} (hidden), "
          f"sum results_turnout = {leaked:.0f} (NOT hidden)")
    if leaked != 0:
        failed = True

# (a) the bootstrap estimator through the public entry point
try:
    HistoricalModelClient().get_historical_evaluation(
        current.copy(), CURRENT, "G", ["margin"], [0.9], 100, "county",
        pi_method="bootstrap", features=["baseline_normalized_margin"], aggregates=["postal_code"], save_output=[],
        model_parameters={"B": 20, "fit_margin_outlier_model": False, "fit_turnout_outlier_model": False},
    )
    print("bootstrap historical evaluation ran")
except KeyError as e:
    print(f"bootstrap historical evaluation raised KeyError: {e}")
    failed = True

# control: the conformal estimators do run
out = HistoricalModelClient().get_historical_evaluation(
    current.copy(), CURRENT, "G", ["turnout"], [0.9], 100, "county",
    pi_method="gaussian", aggregates=["postal_code"], save_output=[],
    model_parameters={"fit_margin_outlier_model": False, "fit_turnout_outlier_model": False},
)
print("control (gaussian/turnout) ran:", out[PAST]["estimates"]["state_data"].to_dict("records"))

if failed:
    print("C10 VIOLATED (historical evaluation): bootstrap cannot be evaluated and results_turnout of waiting units is not hidden")
    sys.exit(1)
print("C10 historical part holds for these inputs")
sys.exit(0)
