import json, sys, logging
import numpy as np, pandas as pd
logging.disable(logging.CRITICAL)
from elexmodel.client import ModelClient
FIX = "/repo/tests/fixtures"
cfg0 = json.load(open(f"{FIX}/config/2017-11-07_VA_G.json"))
va = pd.read_csv(f"{FIX}/data/2017-11-07_VA_G/G/data_county.csv", dtype={"geographic_unit_fips": str, "county_fips": str})

def multi_state(states=("VA", "NC", "MD"), sizes=(133, 40, 12), seed=0):
    rng = np.random.default_rng(seed)
    out = []
    for k, (s, n) in enumerate(zip(states, sizes)):
        d = va.sample(n, random_state=seed + k).copy().reset_index(drop=True)
        if k > 0:
            d["postal_code"] = s
            d["geographic_unit_fips"] = str(30 + k) + d["geographic_unit_fips"].str[2:]
            d["county_fips"] = d["geographic_unit_fips"]
            f = rng.uniform(0.8, 1.2, n)
            for c in ["results_turnout", "results_dem", "results_gop"]:
                d[c] = (d[c] * f).round()
        out.append(d)
    return pd.concat(out).reset_index(drop=True)

def cfg_for(states):
    c = json.loads(json.dumps(cfg0))
    for sub in c["2017-11-07_VA_G"]:
        sub["states"] = list(states)
    return c

def make_feed(df, frac_rep=0.6, partial=40, seed=0):
    rng = np.random.default_rng(seed)
    feed = df[["postal_code", "geographic_unit_fips", "results_turnout", "results_dem", "results_gop"]].copy().astype({"results_turnout": float, "results_dem": float, "results_gop": float})
    rep = rng.random(len(feed)) < frac_rep
    feed["percent_expected_vote"] = np.where(rep, 100, partial)
    cols = ["results_turnout", "results_dem", "results_gop"]
    feed.loc[~rep, cols] = (feed.loc[~rep, cols] * partial / 100).round()
    return feed

def run(feed, df, pi, est, cfg, office="G", gut="county", mp=None, outliers=False, alphas=(0.9,), thr=100, client=None, **kw):
    mp = dict(mp or {})
    if not outliers:
        mp.update(fit_margin_outlier_model=False, fit_turnout_outlier_model=False)
    if pi == "bootstrap":
        mp.setdefault("B", 20); kw.setdefault("features", ["baseline_normalized_margin"])
    pre = df.drop(columns=["results_turnout", "results_dem", "results_gop"])
    client = client or ModelClient()
    return client.get_estimates(feed.copy(), "2017-11-07_VA_G", office, list(est), list(alphas), thr, gut,
        raw_config=json.loads(json.dumps(cfg)), preprocessed_data=pre.copy(), save_output=[], pi_method=pi, model_parameters=mp, **kw)
