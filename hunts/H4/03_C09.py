"""
C09 violation: with handle_unreporting="drop", a BASELINE unit that is present in the feed with null results
(the "units where results are na" that the drop policy is documented to handle, CombinedData.py:37-43) is put in
category "unexpected" -- the category that is supposed to mean "not in the baseline" -- and is emitted with NaN
pred/results instead of being dropped.  Under the bootstrap estimator its NaN two-party weights then erase the
estimate of the whole state (pred_margin 0.0, pred_turnout NaN).

Root cause: CombinedDataHandler.__init__ drops the row from self.data (CombinedData.py:43);
_get_expected_geographic_unit_fips() (CombinedData.py:141-146) then reads the list of "expected" units from that
already filtered self.data, so _get_unexpected_units() (CombinedData.py:170-179) no longer recognises the unit as a
baseline unit and takes its (null) row from current_data.

Run:  cd /repo && PYTHONPATH=/repo/src /venv/bin/python _hunt/03_C09.py
"""
import json
import logging
import sys

import numpy as np
import pandas as pd

logging.disable(logging.CRITICAL)
from elexmodel.client import ModelClient  # noqa: E402

FIX = "/repo/tests/fixtures"
ELECTION = "2017-11-07_VA_G"
cfg = json.load(open(f"{FIX}/config/{ELECTION}.json"))
df = pd.read_csv(f"{FIX}/data/{ELECTION}/G/data_county.csv", dtype={"geographic_unit_fips": str, "county_fips": str})
RESULTS = ["results_turnout", "results_dem", "results_gop"]


def run(feed, pi_method, estimands, **kwargs):
    params = {"B": 20, "fit_margin_outlier_model": False, "fit_turnout_outlier_model": False}
    return ModelClient().get_estimates(
        feed.copy(),
        ELECTION,
        "G",
        estimands,
        [0.9],
        100,
        "county",
        raw_config=json.loads(json.dumps(cfg)),
        preprocessed_data=df.drop(columns=RESULTS).copy(),
        save_output=[],
        pi_method=pi_method,
        aggregates=["postal_code", "unit"],
        handle_unreporting="drop",
        model_parameters=params,
        **kwargs,
    )


rng = np.random.default_rng(0)
feed = df[["postal_code", "geographic_unit_fips"] + RESULTS].astype({c: float for c in RESULTS}).copy()
reporting = rng.random(len(feed)) < 0.6
feed["percent_expected_vote"] = np.where(reporting, 100, 0)
feed.loc[~reporting, RESULTS] = 0
null_unit = feed.loc[~reporting, "geographic_unit_fips"].iloc[2]
assert null_unit in set(df.geographic_unit_fips)  # it IS a baseline unit
feed.loc[feed.geographic_unit_fips == null_unit, RESULTS] = np.nan  # nothing reported for it yet

failed = False
for pi_method, estimands, extra in [
    ("gaussian", ["turnout"], {}),
    ("bootstrap", ["margin"], {"features": ["baseline_normalized_margin"]}),
]:
    result = run(feed, pi_method, estimands, **extra)
    units = result["unit_data"].set_index("geographic_unit_fips")
    estimand = estimands[0]
    print(f"--- {pi_method}/{estimand}")
    if null_unit in units.index:
        row = units.loc[null_unit]
        print(f"   baseline unit {null_unit} is reported as: category={row.unit_category!r}, pred={row[f'pred_{estimand}']}, results={row[f'results_{estimand}']}")
        if row.unit_category == "unexpected":
            failed = True
    else:
        print(f"   baseline unit {null_unit} was dropped (as documented)")
    state = result["state_data"].iloc[0]
    print("   state row:", state.drop("postal_code").to_dict())
    if not np.isfinite(state.get("pred_turnout", 0.0)):
        failed = True

if failed:
    print("C09 VIOLATED: a baseline unit with null results is categorised 'unexpected' under the drop policy")
    sys.exit(1)
print("C09 holds for these inputs")
sys.exit(0)
