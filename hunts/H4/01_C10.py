"""
C10 violation: the vote count of a blocklisted (or zero-baseline) unit changes the estimates of every other unit.

The outlier models (on by default) are fit in CombinedDataHandler._get_non_modeled_units on `reporting_units`
*before* the blocklisted / zero-baseline / strange-turnout units have been taken out of it
(src/elexmodel/handlers/data/CombinedData.py:251-264, called from :97 while the removal only happens at :109).
The count of an excluded unit therefore moves the quantile-regression fit and the mean + z * std cut-off, which
changes WHICH other units are flagged as outliers, hence the training set, hence everybody's prediction.

Run:  cd /repo && PYTHONPATH=/repo/src /venv/bin/python _hunt/01_C10.py
"""
import json
import logging
import sys

import numpy as np
import pandas as pd

logging.disable(logging.CRITICAL)
from elexmodel.client import ModelClient  # noqa: E402
from elexmodel.handlers.data.LiveData import MockLiveDataHandler  # noqa: E402

FIX = "/repo/tests/fixtures"
ELECTION = "2017-11-07_VA_G"
cfg = json.load(open(f"{FIX}/config/{ELECTION}.json"))
df = pd.read_csv(f"{FIX}/data/{ELECTION}/G/data_county.csv", dtype={"geographic_unit_fips": str, "county_fips": str})


def run(feed, baseline, pi_method, estimands, model_parameters, **kwargs):
    return ModelClient().get_estimates(
        feed.copy(),
        ELECTION,
        "G",
        estimands,
        [0.9],
        100,
        "county",
        raw_config=json.loads(json.dumps(cfg)),
        preprocessed_data=baseline.copy(),
        save_output=[],
        pi_method=pi_method,
        aggregates=["postal_code", "unit"],
        model_parameters=model_parameters,  # outlier models are left at their default (enabled)
        **kwargs,
    )


def others_differ(r1, r2, unit):
    u1 = r1["unit_data"].set_index("geographic_unit_fips").drop(index=unit)
    u2 = r2["unit_data"].set_index("geographic_unit_fips").drop(index=unit)
    neq = ~((u1 == u2) | (u1.isna() & u2.isna())).all(axis=1)
    num = [c for c in u1.columns if c.startswith(("pred_", "lower_", "upper_"))]
    biggest = (u1[num] - u2[num]).abs().max().round(3).to_dict()
    print("   largest change in another unit's row:", biggest)
    return int(neq.sum()), u1.unit_category.value_counts().to_dict(), u2.unit_category.value_counts().to_dict()


failures = []

# ---------------------------------------------------------------- case 1: blocklisted unit, gaussian, turnout
handler = MockLiveDataHandler(ELECTION, "G", "county", ["turnout"], data=df.copy())
handler.shuffle(seed=5)
feed = handler.get_percent_fully_reported(70)
blocklisted = feed[feed.percent_expected_vote == 100].geographic_unit_fips.iloc[3]
params = {"unit_blocklist": [blocklisted]}
r1 = run(feed, df, "gaussian", ["turnout"], params)
feed2 = feed.copy()
feed2.loc[feed2.geographic_unit_fips == blocklisted, "results_turnout"] *= 40  # only the blocklisted unit's count changes
r2 = run(feed2, df, "gaussian", ["turnout"], params)
row = r1["unit_data"].set_index("geographic_unit_fips").loc[blocklisted]
assert row.unit_category == "non-modeled: blocklisted", row.unit_category
n, cats1, cats2 = others_differ(r1, r2, blocklisted)
print(f"[gaussian/turnout] blocklisted unit {blocklisted}: count x40 -> {n} OTHER unit rows changed")
print("   categories before:", cats1)
print("   categories after: ", cats2)
s1, s2 = r1["state_data"].iloc[0], r2["state_data"].iloc[0]
delta_counted = s2.results_turnout - s1.results_turnout
print(
    f"   state: pred moved by {s2.pred_turnout - s1.pred_turnout:.0f}, lower by {s2['lower_0.9_turnout'] - s1['lower_0.9_turnout']:.0f}, "
    f"upper by {s2['upper_0.9_turnout'] - s1['upper_0.9_turnout']:.0f}; the counted votes moved by {delta_counted:.0f}"
)
if n > 0:
    failures.append("blocklisted unit changed other units' estimates")

# ---------------------------------------------------------------- case 2: zero-baseline unit, bootstrap, margin
base = df.copy()
zero_unit = feed[feed.percent_expected_vote == 100].geographic_unit_fips.iloc[7]
base.loc[base.geographic_unit_fips == zero_unit, ["baseline_turnout", "baseline_dem", "baseline_gop"]] = 0
feed_m = df[["postal_code", "geographic_unit_fips", "results_turnout", "results_dem", "results_gop"]].merge(
    feed[["geographic_unit_fips", "percent_expected_vote"]], on="geographic_unit_fips"
)
notyet = feed_m.percent_expected_vote < 100
feed_m.loc[notyet, ["results_turnout", "results_dem", "results_gop"]] = 0
bparams = {"B": 20}
b1 = run(feed_m, base, "bootstrap", ["margin"], bparams, features=["baseline_normalized_margin"])
feed_m2 = feed_m.copy()
m = feed_m2.geographic_unit_fips == zero_unit
feed_m2.loc[m, "results_dem"] = feed_m2.loc[m, "results_dem"] * 3 + 500  # only the zero-baseline unit's count changes
b2 = run(feed_m2, base, "bootstrap", ["margin"], bparams, features=["baseline_normalized_margin"])
row = b1["unit_data"].set_index("geographic_unit_fips").loc[zero_unit]
assert row.unit_category == "non-modeled: zero baseline", row.unit_category
n, cats1, cats2 = others_differ(b1, b2, zero_unit)
print(f"[bootstrap/margin] zero-baseline unit {zero_unit}: dem count changed -> {n} OTHER unit rows changed")
print("   categories before:", cats1)
print("   categories after: ", cats2)
if n > 0:
    failures.append("zero-baseline unit changed other units' estimates")

if failures:
    print("C10 VIOLATED:", "; ".join(failures))
    sys.exit(1)
print("C10 holds for these inputs")
sys.exit(0)
