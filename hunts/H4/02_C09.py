"""
C09 violation: with handle_unreporting="zero", a blocklisted or zero-baseline baseline unit that has not appeared in
the feed yet is NOT "passed through as counted votes" (0 votes so far) -- its two-party weights stay NaN, and under the
bootstrap estimator that NaN wipes out the estimate of every group containing the unit
(state pred_margin 0.0, pred_turnout NaN, interval [-0.001, 0.001]).

Root cause: CombinedDataHandler.__init__ (src/elexmodel/handlers/data/CombinedData.py:46-49) zero-fills only the
results_<estimand> columns; results_weights (and results_normalized_margin) of the unit keep the NaN produced by the
left join.  The unit is then routed into `unexpected_units` (blocklisted / zero baseline), whose results_weights are
summed as counted turnout in BootstrapElectionModel.get_aggregate_predictions / get_aggregate_prediction_intervals
(src/elexmodel/models/BootstrapElectionModel.py:1540,1549 and :1689-1690): NaN -> aggregate_z_total NaN ->
np.nan_to_num(pred / NaN) = 0.

The same feed with an explicit all-zero row for the unit (which is what the "zero" policy claims to emulate) gives a
sensible estimate, so the script compares the two.

Run:  cd /repo && PYTHONPATH=/repo/src /venv/bin/python _hunt/02_C09.py
"""
import json
import logging
import sys

import numpy as np
import pandas as pd

logging.disable(logging.CRITICAL)
from elexmodel.client import ModelClient  # noqa: E402

FIX = "/repo/tests/fixtures"
ELECTION = "2017-11-07_VA_G"
cfg = json.load(open(f"{FIX}/config/{ELECTION}.json"))
df = pd.read_csv(f"{FIX}/data/{ELECTION}/G/data_county.csv", dtype={"geographic_unit_fips": str, "county_fips": str})
RESULTS = ["results_turnout", "results_dem", "results_gop"]


def run(feed, baseline, model_parameters):
    params = {"B": 20, "fit_margin_outlier_model": False, "fit_turnout_outlier_model": False}
    params.update(model_parameters)
    return ModelClient().get_estimates(
        feed.copy(),
        ELECTION,
        "G",
        ["margin"],
        [0.9],
        100,
        "county",
        raw_config=json.loads(json.dumps(cfg)),
        preprocessed_data=baseline.drop(columns=RESULTS).copy(),
        save_output=[],
        pi_method="bootstrap",
        features=["baseline_normalized_margin"],
        aggregates=["postal_code", "unit"],
        handle_unreporting="zero",
        model_parameters=params,
    )


rng = np.random.default_rng(0)
feed = df[["postal_code", "geographic_unit_fips"] + RESULTS].copy()
reporting = rng.random(len(feed)) < 0.6
feed["percent_expected_vote"] = np.where(reporting, 100, 0)
feed.loc[~reporting, RESULTS] = 0
late_unit = feed.loc[~reporting, "geographic_unit_fips"].iloc[2]  # a unit that has no votes yet

failures = []
for label, baseline, params in [
    ("zero-baseline unit", df.assign(**{c: df[c].where(df.geographic_unit_fips != late_unit, 0) for c in ["baseline_turnout", "baseline_dem", "baseline_gop"]}), {}),
    ("blocklisted unit", df, {"unit_blocklist": [late_unit]}),
]:
    with_zero_row = run(feed, baseline, params)  # the unit is in the feed with 0 votes / 0 percent
    absent = run(feed[feed.geographic_unit_fips != late_unit], baseline, params)  # the unit is not in the feed yet
    s_row, s_abs = with_zero_row["state_data"].iloc[0], absent["state_data"].iloc[0]
    u = absent["unit_data"].set_index("geographic_unit_fips").loc[late_unit]
    print(f"--- {label} {late_unit} (category: {u.unit_category})")
    print("   unit in feed with zeros :", s_row[["pred_margin", "pred_turnout", "lower_0.9_margin", "upper_0.9_margin"]].to_dict())
    print("   unit absent, policy zero:", s_abs[["pred_margin", "pred_turnout", "lower_0.9_margin", "upper_0.9_margin"]].to_dict())
    print("   unit row (absent case)  :", u[["pred_margin", "pred_turnout", "results_margin"]].to_dict())
    if not np.isfinite(s_abs.pred_turnout) or abs(s_abs.pred_margin - s_row.pred_margin) > 1e-9:
        failures.append(label)

if failures:
    print("C09 VIOLATED: under the 'zero' policy the state estimate is destroyed by a not-yet-reporting", " / ".join(failures))
    sys.exit(1)
print("C09 holds for these inputs")
sys.exit(0)
