"""
C07: naming a contest for both parties, or naming a contest that is not being modelled (in a call list or in the
stop list), must raise an error instead of producing estimates.

Input: VA governor fixture (one contest, "VA"), bootstrap estimator, 50 percent of the counties reporting, and the
request does not contain the contest-level table (aggregates = ["county_fips", "unit"], ["county_classification"]
or ["unit"]).

The call lists are only looked at inside get_aggregate_predictions / get_aggregate_prediction_intervals, and only in
the branch `if self._is_top_level_aggregate(aggregate)`. When no contest-level table is requested nothing ever
validates them, so contradictory and unknown calls are swallowed and estimates are returned.
"""
import os
import sys

sys.path.insert(0, os.path.dirname(os.path.abspath(__file__)))
from common import BOOT, BOOT_PARAMS, live, load, run  # noqa: E402

pre = load("G", "county")
cur = live(pre, "G", "county", ["margin"], percent=50)

bad_requests = {
    "called for both parties": dict(lhs_called_contests=["VA"], rhs_called_contests=["VA"]),
    "unknown contest called left": dict(lhs_called_contests=["ZZ"]),
    "unknown contest called right": dict(rhs_called_contests=["ZZ"]),
    "unknown contest on the stop list": dict(stop_model_call=["ZZ"]),
}

problems = []
for aggregates in (["postal_code", "unit"], ["county_fips", "unit"], ["county_classification"], ["unit"]):
    for label, kwargs in bad_requests.items():
        try:
            _, res = run(pre, cur, "G", "county", ["margin"], [0.9], aggregates, BOOT_PARAMS, **kwargs, **BOOT)
        except Exception as e:  # pylint: disable=broad-except
            print(f"aggregates={aggregates}: {label}: rejected ({type(e).__name__})")
            continue
        print(f"aggregates={aggregates}: {label}: NOT rejected, returned tables {list(res)}")
        problems.append(f"aggregates={aggregates}: {label} ({kwargs}) was accepted and estimates were produced")

if problems:
    print("\nC07 VIOLATED:")
    for p in problems:
        print("  -", p)
    sys.exit(1)
print("C07 holds")
