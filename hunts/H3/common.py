"""Shared helpers for the hunt scripts (drives the real ModelClient on the VA fixtures)."""
import json
import logging
import os
import warnings

import numpy as np
import pandas as pd

warnings.filterwarnings("ignore")
logging.disable(logging.CRITICAL)

from elexmodel.client import ModelClient  # noqa: E402
from elexmodel.handlers.data.LiveData import MockLiveDataHandler  # noqa: E402

ROOT = os.path.join(os.environ.get("ELEX_REPO", "/repo"), "tests", "fixtures")
ELECTION = "2017-11-07_VA_G"
DTYPES = {"geographic_unit_fips": str, "geographic_unit_type": str, "county_fips": str, "district": str}


def config():
    with open(os.path.join(ROOT, "config", f"{ELECTION}.json"), encoding="utf-8") as f:
        return json.load(f)


def load(office, unit_type):
    return pd.read_csv(os.path.join(ROOT, "data", ELECTION, office, f"data_{unit_type}.csv"), dtype=DTYPES)


def live(pre, office, unit_type, estimands, n_reporting=None, percent=None, seed=1, unexpected=0):
    h = MockLiveDataHandler(ELECTION, office, unit_type, estimands, data=pre.copy(), unexpected_units=unexpected)
    h.shuffle(seed=seed)
    np.random.seed(seed)  # the mock handler draws its unexpected units from the global numpy state
    if n_reporting is not None:
        return h.get_n_fully_reported(n_reporting)
    return h.get_percent_fully_reported(percent)


BOOT = {
    "pi_method": "bootstrap",
    "features": ["baseline_normalized_margin"],
}
BOOT_PARAMS = {"B": 20, "fit_margin_outlier_model": False, "fit_turnout_outlier_model": False, "lambda_": 1.0}


def run(
    pre,
    cur,
    office,
    unit_type,
    estimands,
    levels,
    aggregates,
    model_parameters=None,
    client=None,
    cfg=None,
    **kwargs,
):
    client = client or ModelClient()
    res = client.get_estimates(
        cur.copy(),
        ELECTION,
        office,
        estimands,
        levels,
        100,
        unit_type,
        raw_config=cfg or config(),
        preprocessed_data=pre.copy(),
        model_parameters=dict(model_parameters or {}),
        aggregates=aggregates,
        save_output=[],
        **kwargs,
    )
    return client, res
