"""
C08: "called contests contribute no uncertainty to either bound" of the national summary (all call/stop lists).

Input: VA governor fixture, bootstrap estimator, the single contest "VA" is called (left or right) and is also on the
stop list (a combination C07 explicitly provides for), weight 13, base 100.

get_national_summary_estimates first zeroes potential_losses / potential_gains of called contests and then, a few
lines further down, sets them back to 1 for every contest on the stop list without looking at the call flags.
A called contest that is also stop-listed therefore moves a bound of the summary by its full weight.
"""
import os
import sys

sys.path.insert(0, os.path.dirname(os.path.abspath(__file__)))
from common import BOOT, BOOT_PARAMS, live, load, run  # noqa: E402

pre = load("G", "county")
cur = live(pre, "G", "county", ["margin"], percent=50)
levels = [0.7, 0.9]

problems = []
for correlation in (True, False):
    for side in ("lhs_called_contests", "rhs_called_contests"):
        params = dict(BOOT_PARAMS, national_summary_correlation=correlation)
        results = {}
        for stop in ([], ["VA"]):
            client, res = run(
                pre, cur, "G", "county", ["margin"], levels, ["postal_code"], params, stop_model_call=stop,
                **{side: ["VA"]}, **BOOT
            )
            summary = client.get_national_summary_votes_estimates({"VA": 13}, 100, levels).iloc[0]
            results[bool(stop)] = summary
            print(
                f"correlation={correlation} {side}=['VA'] stop_model_call={stop}: reported margin "
                f"{res['state_data'].pred_margin.iloc[0]:+.4f}, summary pred={summary.agg_pred} "
                + " ".join(f"[{summary[f'lower_{a}']}, {summary[f'upper_{a}']}]@{a}" for a in levels)
            )
        for a in levels:
            s = results[True]
            if s[f"lower_{a}"] != s.agg_pred or s[f"upper_{a}"] != s.agg_pred:
                problems.append(
                    f"correlation={correlation}, {side}=['VA'] and stop-listed, level {a}: summary interval "
                    f"[{s[f'lower_{a}']}, {s[f'upper_{a}']}] around {s.agg_pred}: the called contest moves a bound by 13"
                )

if problems:
    print("\nC08 VIOLATED:")
    for p in problems:
        print("  -", p)
    sys.exit(1)
print("C08 holds")
