"""
C06: for two requested levels a < b the b-interval contains the a-interval at aggregate level.

Input: VA house of delegates fixture (office Y, county-district units, 60 district contests), 100 units reporting
(MockLiveDataHandler shuffle seed 7), bootstrap estimator with B=50, levels 0.5 < 0.7 < 0.9 < 0.95, district table.
Run once without any list, once with contest VA_93 on the stop list, once with VA_93 called for the left-hand party.

The call / stop adjustments in get_aggregate_prediction_intervals are applied to each level on its own and replace a
bound by the constant +-0.005 only when the bound is on the wrong side of zero:
  * stop list: the 0.9 lower bound is > 0 and is replaced by -0.005, the wider 0.95 lower bound is already slightly
    negative (-0.0036) and is kept, so the 0.95 interval starts to the right of the 0.9 interval;
  * left call: the 0.9 lower bound (+0.0027) is kept, the negative 0.95 lower bound is replaced by +0.005, again the
    wider interval is the shorter one.
Without lists the intervals of the same run are nested, so the violation is produced by the adjustment.
"""
import os
import sys

sys.path.insert(0, os.path.dirname(os.path.abspath(__file__)))
from common import BOOT, BOOT_PARAMS, live, load, run  # noqa: E402

levels = [0.5, 0.7, 0.9, 0.95]
pre = load("Y", "county-district")
cur = live(pre, "Y", "county-district", ["margin"], n_reporting=100, seed=7)
params = dict(BOOT_PARAMS, B=50)


def not_nested(table):
    out = []
    for a, b in zip(levels[:-1], levels[1:]):
        for _, row in table.iterrows():
            la, lb, ua, ub = (row[f"{side}_{lv}_margin"] for side in ("lower", "upper") for lv in (a, b))
            if lb > la + 1e-12 or ub < ua - 1e-12:
                out.append(
                    f"contest VA_{row.district}: level {a} -> [{la:+.6f}, {ua:+.6f}], level {b} -> [{lb:+.6f}, {ub:+.6f}]"
                )
    return out


problems = []
for label, kwargs in (
    ("no lists", {}),
    ("VA_93 on the stop list", dict(stop_model_call=["VA_93"])),
    ("VA_93 called for the left-hand party", dict(lhs_called_contests=["VA_93"])),
):
    _, res = run(pre, cur, "Y", "county-district", ["margin"], levels, ["district"], params, **kwargs, **BOOT)
    found = not_nested(res["district_data"])
    print(f"{label}: {len(found)} non-nested pairs")
    for f in found:
        print("    ", f)
        problems.append(f"{label}: {f}")

if problems:
    print("\nC06 VIOLATED (the wider level does not contain the narrower one):")
    for p in problems:
        print("  -", p)
    sys.exit(1)
print("C06 holds")
