"""
C06 is quantified over "all regularisation constants, with and without fixed effects"; lambda_ = 0 is accepted by
ModelClient._check_input_parameters (only negative values are rejected).

Input: VA governor fixture, county units, bootstrap estimator, fixed_effects=["county_classification"], lambda_=0,
14 counties reporting (MockLiveDataHandler shuffle seed 9) so that at least one classification has exactly one
reporting county.

With lambda_ = 0 the dummy column of a classification with a single reporting unit gives that unit leverage 1. The
leave-one-out residual computed in _estimate_model_errors (model.residuals(..., loo=True)) is then 0/0 = NaN, the NaN
goes into delta_hat and the first quantile regression of _estimate_strata_dist rejects it: no estimates at all are
produced ("Array contains NaN or Infinity"). Any lambda_ > 0 works on the same input. (With other shuffles, e.g. seed 4,
nothing is raised; the 0.9 state interval is then [-0.76, +0.49] at lambda_=0 against [-0.02, +0.18] at lambda_=1e-6,
which is what a residual of rounding-noise / rounding-noise instead of 0/0 would do, but I did not trace that case.)
"""
import os
import sys

sys.path.insert(0, os.path.dirname(os.path.abspath(__file__)))
from common import BOOT, BOOT_PARAMS, live, load, run  # noqa: E402

pre = load("G", "county")
cur = live(pre, "G", "county", ["margin"], n_reporting=14, seed=9)
reporting = cur[cur.percent_expected_vote == 100].merge(
    pre[["geographic_unit_fips", "county_classification"]], on="geographic_unit_fips"
)
print("reporting counties per classification:", reporting.county_classification.value_counts().to_dict())

outcome = {}
for lam in (1.0, 1e-6, 0):
    try:
        _, res = run(
            pre, cur, "G", "county", ["margin"], [0.7, 0.9], ["postal_code", "unit"], dict(BOOT_PARAMS, lambda_=lam),
            fixed_effects=["county_classification"], **BOOT
        )
        row = res["state_data"].iloc[0]
        outcome[lam] = f"ok: pred {row.pred_margin:+.4f} [{row['lower_0.9_margin']:+.4f}, {row['upper_0.9_margin']:+.4f}]"
    except Exception as e:  # pylint: disable=broad-except
        outcome[lam] = f"raised {type(e).__name__}: {e}"
    print(f"lambda_={lam}: {outcome[lam]}")

if outcome[0].startswith("raised"):
    print("\nC06 VIOLATED (no estimates for lambda_=0 with fixed effects):", outcome[0])
    sys.exit(1)
print("C06 holds")
