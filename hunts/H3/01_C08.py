"""
C08: the national summary must be a function of the top-level contests only; it must not change or fail because a
finer aggregate was also requested, or because the aggregates were requested in a different order.

Input: a statewide race (office G, contest = postal_code) whose units also carry a district column (as presidential
county data does), bootstrap estimator, aggregates ["postal_code", "district"] versus ["district", "postal_code"]
versus ["postal_code"] alone.

BootstrapElectionModel._is_top_level_aggregate() answers True for the list ["postal_code", "district"] whatever the
office is, so in a statewide race the district table is taken for the contest table: its bootstrap errors, point
predictions and call flags overwrite the ones of the real contests when it is computed last.
"""
import os
import sys

sys.path.insert(0, os.path.dirname(os.path.abspath(__file__)))
from common import BOOT, BOOT_PARAMS, ELECTION, config, live, load, pd, run  # noqa: E402

pre = load("G", "county")
# six districts, built from the regional classification so that the example is deterministic
pre["district"] = (pd.factorize(pre["county_classification"])[0] + 1).astype(str)
cfg = config()
cfg[ELECTION][1]["aggregates"].append("district")  # the G entry of the fixture config
cur = live(pre, "G", "county", ["margin"], percent=50)

problems = []
summaries = {}
for aggregates in (["postal_code"], ["district", "postal_code"], ["postal_code", "district"]):
    client, res = run(pre, cur, "G", "county", ["margin"], [0.9], aggregates, BOOT_PARAMS, cfg=cfg, **BOOT)
    state = res["state_data"][["pred_margin", "lower_0.9_margin", "upper_0.9_margin"]].round(6).values.tolist()
    # 1. unit weights (Senate style): nat_sum_data_dict=None
    try:
        unweighted = client.get_national_summary_votes_estimates(None, 0, [0.9]).iloc[0, 1:].astype(float).tolist()
    except Exception as e:  # pylint: disable=broad-except
        unweighted = f"raised {type(e).__name__}: {e}"
    # 2. explicit weight for the one contest
    try:
        weighted = client.get_national_summary_votes_estimates({"VA": 13}, 0, [0.9]).iloc[0, 1:].astype(float).tolist()
    except Exception as e:  # pylint: disable=broad-except
        weighted = f"raised {type(e).__name__}: {e}"
    summaries[tuple(aggregates)] = (unweighted, weighted)
    print(f"aggregates={aggregates}\n   state table {state}\n   summary(None) = {unweighted}\n   summary({{'VA': 13}}) = {weighted}")

reference = summaries[("postal_code",)]
for aggregates, value in summaries.items():
    if value != reference:
        problems.append(f"aggregates={list(aggregates)}: national summary {value} != {reference} (postal_code only)")

# the same confusion makes a legitimate race call unusable as soon as the district table is requested
try:
    run(pre, cur, "G", "county", ["margin"], [0.9], ["postal_code", "district"], BOOT_PARAMS, cfg=cfg,
        lhs_called_contests=["VA"], **BOOT)
except Exception as e:  # pylint: disable=broad-except
    problems.append(f"calling the contest 'VA' with the district table requested raised {type(e).__name__}: {e}")

if problems:
    print("\nC08 VIOLATED:")
    for p in problems:
        print("  -", p)
    sys.exit(1)
print("C08 holds")
